"""C12 — the time integration adapters conserve the integral.

Correspondence: random publication series and request partitions (finer, coarser, incommensurable with the
source steps) are run through a real `Output >> {AvgOverTime, SumOverTime}(step=None|k/8, per_time, initial_interval)
>> Input` link (scalar and small gridded payloads, several source units) and through `Finam.TI.stepImpl` of the
Lean model.  Observables: every pull's answer (value in source units [x second], against the model's exact
rationals, or the error class) and `len(adapter.data)` after every event.
Oracle (independent of the model), exact `fractions.Fraction` arithmetic:
(1) each request at p1 following a request at p0 < p1 returns the exact integral over [p0, p1] of the linear / step
    interpolant of the full published series (per-time: x seconds; absolute: plain weighted sum; average: / (p1 - p0));
(2) output units are source units x second (reduced) for per-time sums, source units otherwise;
(3) the total delivered over the period does not depend on the partition (second real adapter, coarser partition);
(4) every average lies within the range of the published values that contribute to it;
(5) the same history through an adapter whose `_clear_cached_data` is disabled gives identical answers.
"""
from fractions import Fraction as F

import numpy as np

from .. import common
from . import spillmask
import os
from ..fmutil import T, ad, close, err_class, fm, td

MODULES = ["TimeAdapters", "TimeAdaptersLemmas", "Integration", "IntegrationLemmas"]
GEN_OBLIGATIONS = ["caching_push_based"]
SHAPES = {"scalar": None, "g2": (3,), "g22": (3, 3)}
UNITS = ["m/s", "mm/d", "m", "kg/h", ""]


def ncells(shape):
    return {"scalar": 1, "g2": 2, "g22": 4}[shape]


TINY, OFFSET = 2.0 ** -30, 2.0 ** 17


def _magnify(case, rng):
    """magnitude families (exact dyadic payloads, so the model's rationals stay exact): very small values (k * 2^-30, e.g.
    conductivities in m/s) and small changes on a large level (2^17 + k / 8, e.g. a pressure in Pa) — differences far below
    / relative changes near the default tolerances of `np.isclose` / `np.allclose`"""
    r = rng.random()
    mag = "tiny" if r < 0.1 else "offset" if r < 0.2 else None
    if mag is None:
        return case
    for ev in case["events"]:
        if ev[0] == "push":
            ev[2] = [(v * TINY if mag == "tiny" else OFFSET + v / 8.0) for v in ev[2]]
    case["mag"] = mag
    return case


def _unit(case):
    """the magnitude answers are compared at"""
    return TINY if case.get("mag") == "tiny" else 1.0


def gen_case(rng, max_events=36):
    mode = rng.choice(["avg", "sum", "sum", "sumabs"])
    step = None if rng.random() < 0.4 else [rng.randrange(0, 9), 8]
    shape = rng.choices(list(SHAPES), weights=[7, 2, 1])[0]
    nc = ncells(shape)
    scale = rng.choice([8, 1000, 1_000_000, 1_000_000, 3_600_000_000, 86_400_000_000])
    gaps = rng.choice([[1, 2, 3, 5], [8, 16, 24], [4, 8, 12], [7, 9], [8]])
    init_us = rng.choice([0, 0, scale, 3 * scale])
    t0 = rng.randrange(0, 3) * scale
    pubs, events = [t0], [["push", t0, [rng.randrange(-9, 10) for _ in range(nc)]]]
    prev = t0
    if rng.random() < 0.6:
        events.append(["pull", t0])  # the usual first pull at the first publication (initial-interval rule)
    nev = rng.randrange(4, max_events)
    partition = rng.choice(["fine", "coarse", "mixed", "incomm"])
    for _ in range(nev):
        if pubs[-1] <= prev or rng.random() < (0.6 if partition == "fine" else 0.35 if partition == "coarse" else 0.45):
            if rng.random() < 0.8 or pubs[-1] <= prev:
                t = pubs[-1] + rng.choice(gaps) * scale
                pubs.append(t)
                events.append(["push", t, [rng.randrange(-9, 10) for _ in range(nc)]])
                continue
        hi = pubs[-1]
        r = rng.random()
        if r < 0.06:  # beyond the newest publication
            events.append(["pull", hi + rng.choice([1, scale])])
            continue
        if r < 0.10 and mode != "sumabs":  # zero-length repeat (outside the property; error classes only)
            events.append(["pull", prev])
            continue
        if hi <= prev:
            continue
        # requests closer together than ~1/2500 of a source interval make `dt2 - dt1` cancel in floating
        # point (rounding is not modelled), so consecutive requests keep a minimal distance
        minstep = max(1, scale // 64)
        if partition == "fine":
            cand = prev + rng.choice([1, 2, 3]) * max(scale // 4, 1)
        elif partition == "coarse":
            later = [p for p in pubs if p > prev]
            cand = rng.choice(later) if rng.random() < 0.5 else rng.randrange(prev + 1, hi + 1)  # noqa
        elif partition == "incomm":
            cand = prev + rng.choice([1, 2, 5]) * max(scale * 7 // 3, 1) + rng.choice([0, 1])
        else:
            ivs = [(a, b) for a, b in zip(pubs, pubs[1:]) if b > prev]
            a, b = rng.choice(ivs)
            k = step[0] if (step and rng.random() < 0.5) else rng.randrange(0, 9)
            cand = a + (b - a) * k // 8 + rng.choice([0, 0, 1, -1])
        cand = min(max(cand, prev + minstep), hi)
        if cand - prev < minstep:
            continue
        events.append(["pull", cand])
        prev = cand
    return _magnify({"mode": mode, "step": step, "init_us": init_us, "units": rng.choice(UNITS), "shape": shape,
                     "events": events}, rng)


def make_adapter(case, no_evict=False):
    step = None if case["step"] is None else case["step"][0] / case["step"][1]
    if case["mode"] == "avg":
        cls, kw = ad.AvgOverTime, {"step": step}
    else:
        cls, kw = ad.SumOverTime, {"step": step, "per_time": case["mode"] == "sum",
                                   "initial_interval": td(case["init_us"])}
    if no_evict:
        cls = type("NoEvict" + cls.__name__, (cls,), {"_clear_cached_data": lambda self, time: None})
    return cls(**kw)


def build(case, no_evict=False):
    dims = SHAPES[case["shape"]]
    grid = fm.NoGrid() if dims is None else fm.UniformGrid(dims)
    out = fm.Output(name="out", info=fm.Info(time=T(0), grid=grid, units=case["units"]))
    inp = fm.Input(name="in", info=fm.Info(time=None, grid=None, units=None))
    a = make_adapter(case, no_evict)
    out >> a >> inp
    inp.ping()
    inp.exchange_info()
    dshape = () if dims is None else tuple(d - 1 for d in dims)
    return out, a, inp, dshape


def run_impl(case, no_evict=False, events=None):
    out, a, inp, dshape = build(case, no_evict)
    u_in = fm.UNITS.Unit(case["units"])
    u_res = u_in * fm.UNITS.Unit("s") if case["mode"] == "sum" else u_in
    answers, lens = [], []
    for ev in (case["events"] if events is None else events):
        if ev[0] == "push":
            out.push_data(np.array(ev[2], dtype=float).reshape(dshape), T(ev[1]))
            answers.append(None)
        else:
            try:
                v = inp.pull_data(T(ev[1]))
                mag = np.asarray(v.magnitude)
                if mag.dtype == object:
                    answers.append({"err": "other", "note": "non-numeric payload delivered"})
                else:
                    reduced_ok = True
                    if case["mode"] == "sum":
                        red = (1.0 * u_res).to_reduced_units().units
                        reduced_ok = v.units == red
                    else:
                        reduced_ok = v.units == u_in
                    w = v.to(u_res)
                    answers.append({"ok": [float(x) for x in np.asarray(w.magnitude).reshape(-1)],
                                    "units_ok": bool(reduced_ok), "units": str(v.units)})
            except Exception as e:  # noqa
                answers.append({"err": err_class(e)})
        lens.append(len(a.data))
    return {"answers": answers, "lens": lens}


def model_request(case):
    def rat(v):
        q = F(v)  # exact also for the dyadic float payloads of the magnitude families
        return [q.numerator, q.denominator]
    evs = [[e[0], e[1], [rat(v) for v in e[2]]] if e[0] == "push" else e for e in case["events"]]
    req = {"op": "c12", "mode": "avg" if case["mode"] == "avg" else "sum", "per_time": case["mode"] == "sum",
           "init_us": case["init_us"], "events": evs}
    if case["step"] is not None:
        req["step"] = case["step"]
    return req


def same_answer(a, m, u=1.0):
    if a is None or m is None:
        return a is None and m is None
    if "err" in a or "err" in m:
        return a.get("err") == m.get("err")
    return len(a["ok"]) == len(m["ok"]) and all(close(x / u, q[0] / q[1] / u) for x, q in zip(a["ok"], m["ok"]))


def compare(case, impl, model):
    for i, _ev in enumerate(case["events"]):
        if not same_answer(impl["answers"][i], model["impl"][i], _unit(case)):
            return {"event": i, "impl": impl["answers"][i], "model": model["impl"][i]}
        if impl["lens"][i] != model["lens"][i]:
            return {"event": i, "impl_len": impl["lens"][i], "model_len": model["lens"][i]}
    return None


# ---------------------------------------------------------------------------------------------
# oracle
# ---------------------------------------------------------------------------------------------
def interpolant_integral(hist, cell, p0, p1, step, per_time):
    """exact integral over [p0, p1] (microseconds) of the interpolant of hist = [(t, [values])];
    returns (integral, contributing values).  per_time: value x seconds; else plain weighted sum."""
    tot, contrib = F(0), []
    for (a, va), (b, vb) in zip(hist, hist[1:]):
        lo, hi = max(a, p0), min(b, p1)
        if hi <= lo:
            continue
        va_, vb_ = F(va[cell]), F(vb[cell])
        if step is None:
            f = lambda x: va_ + F(x - a, b - a) * (vb_ - va_)  # noqa
            area = (f(lo) + f(hi)) / 2 * (hi - lo)
            contrib += [va_, vb_]
        else:
            s = a + F(*step) * (b - a)
            la = max(F(0), min(F(hi), s) - lo)
            lb = max(F(0), hi - max(F(lo), s))
            area = va_ * la + vb_ * lb
            if la > 0:
                contrib.append(va_)
            if lb > 0:
                contrib.append(vb_)
        tot += area / 1_000_000 if per_time else area / (b - a)
    return tot, contrib


def expected(case, hist, cell, p0, p1):
    integral, contrib = interpolant_integral(hist, cell, p0, p1, case["step"], case["mode"] != "sumabs")
    if case["mode"] == "avg":
        return integral / F(p1 - p0, 1_000_000), contrib
    return integral, contrib


def served_sequence(case, impl):
    """[(event index, p0, p1, answer)] for requests the property speaks about"""
    hist, prev, out = [], None, []
    for i, ev in enumerate(case["events"]):
        if ev[0] == "push":
            hist.append((ev[1], ev[2]))
            if prev is None:
                prev = ev[1]
            continue
        t = ev[1]
        if not hist or t < hist[0][0] or t > hist[-1][0]:
            out.append((i, None, t, list(hist), "out-of-range"))
            continue
        if t < prev:
            continue
        out.append((i, prev, t, list(hist), "positive" if t > prev else "zero-length"))
        if "ok" in (impl["answers"][i] or {}):
            prev = t
    return out


def oracle(case, impl):
    nc = ncells(case["shape"])
    for i, p0, p1, hist, kind in served_sequence(case, impl):
        a = impl["answers"][i]
        if kind == "out-of-range":
            want = "FinamNoDataError" if not hist else "FinamTimeError"
            if a != {"err": want}:
                return ("a request outside the published range must raise a time error", {"event": i, "time": p1, "got": a})
            continue
        if kind == "zero-length":
            continue  # p0 = p1 is outside the property (p0 < p1)
        if "ok" not in a:
            return ("a request over [p0, p1], p0 < p1, inside the published range must be served",
                    {"event": i, "p0": p0, "p1": p1, "got": a})
        if not a["units_ok"]:
            return ("output units must be the source units x second (reduced) for per-time sums, the source units otherwise",
                    {"event": i, "source_units": case["units"], "mode": case["mode"], "got_units": a["units"]})
        for c in range(nc):
            exp, contrib = expected(case, hist, c, p0, p1)
            if not close(a["ok"][c] / _unit(case), float(exp) / _unit(case)):
                return ("the adapter must return the exact integral of the interpolant over [p0, p1] "
                        "(per time: x seconds; absolute: weighted sum; average: divided by p1 - p0)",
                        {"event": i, "cell": c, "p0": p0, "p1": p1, "got": a["ok"][c], "expected": str(exp)})
            if case["mode"] == "avg":
                lo, hi = float(min(contrib)), float(max(contrib))
                tol = 1e-9 * max(_unit(case), abs(lo), abs(hi))
                if not (lo - tol <= a["ok"][c] <= hi + tol):
                    return ("every average lies within the range of the values that contribute to it",
                            {"event": i, "cell": c, "p0": p0, "p1": p1, "got": a["ok"][c], "range": [lo, hi]})
    # (5) eviction never changes a later result
    ref = run_impl(case, no_evict=True)
    for i, ev in enumerate(case["events"]):
        if ev[0] == "pull":
            x, y = impl["answers"][i], ref["answers"][i]
            same = (x == y) or ("ok" in x and "ok" in y and all(close(p / _unit(case), q / _unit(case)) for p, q in zip(x["ok"], y["ok"])))
            if not same:
                return ("discarding old buffer entries must not change a later result",
                        {"event": i, "evicting": x, "keeping_everything": y})
    # (3) partition independence: drop some interior requests, totals must agree
    seq = [s for s in served_sequence(case, impl)]
    if any(s[4] != "positive" for s in seq[1:]) or any("ok" not in (impl["answers"][s[0]] or {}) for s in seq):
        return None
    if len(seq) >= 3:
        keep = {seq[0][0], seq[-1][0]} | {s[0] for k, s in enumerate(seq[1:-1]) if (k + len(seq)) % 3 == 0}
        events2 = [ev for i, ev in enumerate(case["events"]) if ev[0] == "push" or i in keep]
        impl2 = run_impl(case, events=events2)
        case2 = dict(case, events=events2)
        seq2 = served_sequence(case2, impl2)
        if any("ok" not in (impl2["answers"][s[0]] or {}) for s in seq2):
            return ("a coarser partition of the same period must be served as well", {"events": events2})

        def total(sq, im):
            tot = [0.0] * nc
            for (i, p0, p1, _h, _k) in sq[1:]:
                w = (p1 - p0) / 1e6 if case["mode"] == "avg" else 1.0
                for c in range(nc):
                    tot[c] += im["answers"][i]["ok"][c] * w
            return tot

        t1, t2 = total(seq, impl), total(seq2, impl2)
        scale = max([1.0] + [abs(x) for s in seq[1:] for x in impl["answers"][s[0]]["ok"]])
        if not all(abs(x - y) <= 1e-9 * max(scale, abs(x), abs(y)) * max(1, len(seq)) for x, y in zip(t1, t2)):
            return ("the total delivered over a period must not depend on how the consumer's steps partition it",
                    {"fine_total": t1, "coarse_total": t2, "kept_events": sorted(keep)})
    return None


def check_cases(cases, res):
    models = common.lean_batch([model_request(c) for c in cases])
    for c, m in zip(cases, models):
        impl = run_impl(c)
        seq = served_sequence(c, impl)
        positive = sum(1 for s in seq if s[4] == "positive")
        evictions = sum(1 for a, b in zip(impl["lens"], impl["lens"][1:]) if b < a)
        res.case(c, positive >= 2 and evictions > 0)
        res.count("mode", c["mode"])
        res.count("interpolation", "linear" if c["step"] is None else f"step {c['step'][0]}/8")
        res.count("shape", c["shape"])
        res.count("units", c["units"] or "dimensionless")
        res.count("positive_length_pulls", n=positive)
        res.count("zero_length_pulls", n=sum(1 for s in seq if s[4] == "zero-length"))
        res.count("evictions", n=evictions)
        for a in impl["answers"]:
            if a and "err" in a:
                res.count("errors", a["err"])
        if not m["pre"]:
            res.count("precondition_false")
            continue
        for a, s in zip(m["impl"], m["spec"]):
            if s is not None and a != {"ok": s}:
                raise common.MachineryError("model contradicts its own theorem integration_refines_spec")
        d = compare(c, impl, m)
        if d:
            res.diverge("link/time-integration", c, d, None)
        o = oracle(c, impl)
        if o:
            res.fail(c, o[0], o[1])


def corpus():
    base = [["push", 0, [2]], ["pull", 0], ["push", 4_000_000, [6]], ["push", 6_000_000, [0]], ["pull", 1_000_000],
            ["pull", 5_000_000], ["push", 16_000_000, [10]], ["pull", 16_000_000], ["pull", 17_000_000]]
    out = []
    for mode in ("avg", "sum", "sumabs"):
        for step in (None, [0, 8], [2, 8], [8, 8]):
            out.append({"mode": mode, "step": step, "init_us": 0, "units": "m/s", "shape": "scalar", "events": base})
    out.append({"mode": "sum", "step": [0, 8], "init_us": 86_400_000_000, "units": "mm/d", "shape": "g2", "events": [
        ["push", 0, [1, 2]], ["pull", 0], ["push", 86_400_000_000, [3, 0]], ["push", 172_800_000_000, [5, 5]],
        ["pull", 129_600_000_000], ["pull", 172_800_000_000]]})
    return out


def run(ctx, res):
    res.rule = ("random publication series (strictly increasing, irregular gaps, several time scales, integer values) and "
                "request partitions (fine: quarter steps; coarse: on/across publications; incommensurable: 7/3 steps; "
                "mixed: k/8 positions and one microsecond beside them; beyond the range; rare zero-length repeats), "
                "AvgOverTime / SumOverTime per-time / absolute, linear or step k/8, initial_interval, five source units, "
                "scalar / 2-cell / 2x2-cell payloads; non-trivial = at least two positive-length served requests and "
                "one eviction; distinct by canonical hash")
    res.assumptions = ["publication times strictly increasing, request times non-decreasing; the property speaks about "
                       "requests with p0 < p1 (zero-length repeats are compared with the model only)",
                       "floating point rounding not modelled (relative tolerance 1e-9 against exact rationals); consecutive "
                       "requests are at least 1/64 of the time scale apart, because the implementation's `dt2 - dt1` "
                       "cancels for request intervals that are tiny relative to the source interval",
                       "pint's unit algebra (`to_reduced_units`, `to`) is trusted; units are checked by the oracle, "
                       "not modelled in Lean",
                       "SumOverTime(per_time=False) delivers an array holding None for a zero-length request at a "
                       "publication time; such requests are not generated for that mode (outside the property)"]
    cases = corpus() + [gen_case(ctx.rng, ctx.n(36, 60)) for _ in range(ctx.n(400, 6000))]
    check_cases(cases, res)
    # the adapter's buffer on disk (memory limit) with masked payloads whose masks live in the data: same answers as
    # without a limit (engines/spillmask.py)
    for n in range(ctx.n(40, 600)):
        c = spillmask.gen(ctx.rng, ["avg", "sum"])
        o, spilled = spillmask.check(c, os.path.join(ctx.scratch(), f"sm{n}"))
        res.case(c, spilled > 0)
        res.count("part", "spill-masked")
        if o:
            res.fail(c, o[0], o[1])


def search(ctx, res, divergences, broken):
    for n in range(150):
        c = spillmask.gen(ctx.rng, ["avg", "sum"])
        o, _sp = spillmask.check(c, os.path.join(ctx.scratch(), f"smw{n}"))
        res.case(c, True)
        if o:
            res.fail(c, o[0], o[1])
            return
    cases = [d["case"] for d in divergences if d.get("case")]
    cases += [gen_case(ctx.rng, 50) for _ in range(ctx.n(2500, 15000))]
    for c in cases:
        impl = run_impl(c)
        res.case(c, True)
        o = oracle(c, impl)
        if o:
            res.fail(c, o[0], o[1])
            return


def shrink(ctx, f):
    case = f["case"]
    if case.get("part") == "spillmask":
        return f
    evs = list(case["events"])
    changed = True
    while changed:
        changed = False
        for i in range(1, len(evs)):
            trial = dict(case, events=evs[:i] + evs[i + 1:])
            try:
                o = oracle(trial, run_impl(trial))
            except Exception:
                o = None
            if o:
                evs = trial["events"]
                f = {"case": trial, "required": o[0], "observed": o[1], "signature": f.get("signature")}
                changed = True
                break
    return f


def replay(ctx, rp):
    case = rp.get("input") or (rp.get("diverging_case") or {}).get("case")
    if case.get("part") == "spillmask":
        o, _sp = spillmask.check(case, os.path.join(ctx.scratch(), "smreplay"))
        return {"fails": bool(o), "oracle": o}
    impl = run_impl(case)
    o = oracle(case, impl)
    m = common.lean_batch([model_request(case)])[0]
    return {"fails": bool(o), "oracle": o, "impl": impl, "model": m, "correspondence": compare(case, impl, m)}
