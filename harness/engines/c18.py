"""C18 — masked data: compression round-trips and mask rules are as documented.

Correspondence (real helpers vs. `FinamModel/Mask.lean` through the Lean driver):
* `to_compressed` / `from_compressed` on `arange`-filled arrays of every shape with up to three axes
  of length 1-3, both orders, masks none / nomask / empty / partial / full (every mask for arrays of
  up to 9 elements in the thorough tier), payload plain or quantified, masked array or explicit mask
  argument, plus a malformed stream (wrong value count, `Mask.NONE` with keyword arguments);
* `prepare` under an `Info` with a fixed mask on grids of every layout, payload flat / shaped / with
  time axis, plain / quantified / already masked;
* `Info.accepts` in both directions and a real `Output >> Input` metadata exchange for pairs of mask
  specifications (FLEX, NONE, nomask, arrays equal / equal after re-layout / different / all-False,
  None) x pairs of grid layouts (and missing grids, unstructured casts).

Oracle (independent of the model): compressed data are the unmasked values in the requested memory
order; expanding with the same mask and order restores every unmasked value at its position and
exactly that mask, units kept; `prepare` with a fixed mask yields exactly that mask with the
payload's values at the unmasked positions; acceptance follows the documented table, where two
fixed masks are equal iff they flag the same physical coordinates (`data_points` of either grid).
"""
import itertools

import numpy as np

from .. import common
from .. import gridutil as gu
from ..fmutil import T, err_class, fm
from finam.data.tools import Mask, from_compressed, prepare, to_compressed

MODULES = ["Index", "IndexLemmas", "Grid", "GridLemmas", "Canonical", "CanonicalLemmas", "Mask", "MaskLemmas", "Props.C15"]
GEN_OBLIGATIONS = ["mask_enum"]
UNITS = fm.UNITS

SHAPES = [s for nd in (1, 2, 3) for s in itertools.product((1, 2, 3), repeat=nd)]


# ------------------------------------------------------------------------------------------------
# mask specifications (JSON <-> python)
# ------------------------------------------------------------------------------------------------
def py_mask(spec):
    if spec is None:
        return None
    if spec == "flex":
        return Mask.FLEX
    if spec == "NONE":
        return Mask.NONE
    if spec == "nomask":
        return np.ma.nomask
    return np.array(spec["flat"], dtype=bool).reshape(spec["shape"])


def mask_json(m):
    return gu.bool_json(m)


def mask_array(spec, shape):
    """boolean array a mask spec stands for (nomask = nothing masked)"""
    if isinstance(spec, dict):
        return py_mask(spec)
    return np.zeros(shape, dtype=bool)


def pattern(shape, kind, rng=None, bits=None):
    size = int(np.prod(shape))
    if bits is not None:
        flat = [(bits >> k) & 1 == 1 for k in range(size)]
    elif kind == "empty":
        flat = [False] * size
    elif kind == "full":
        flat = [True] * size
    else:
        flat = [rng.random() < 0.4 for _ in range(size)]
        if size > 1 and all(flat):
            flat[rng.randrange(size)] = False
        if size > 1 and not any(flat):
            flat[rng.randrange(size)] = True
    return np.array(flat, dtype=bool).reshape(shape)


# ------------------------------------------------------------------------------------------------
# round trip
# ------------------------------------------------------------------------------------------------
def rt_case(shape, order, form, mask, quantified):
    """form: 'arg' (plain payload, mask passed as argument) or 'masked' (payload is a MaskedArray).
    mask: None | 'flex' | 'NONE' | 'nomask' | {"shape","flat"}"""
    return {"type": "rt", "shape": list(shape), "order": order, "form": form, "mask": mask,
            "quantified": bool(quantified)}


def gen_rt_case(rng):
    shape = rng.choice(SHAPES)
    kind = rng.choice(["partial", "partial", "partial", "empty", "full", "nomask", "none", "flex", "NONE"])
    form = rng.choice(["arg", "masked"])
    if kind in ("partial", "empty", "full"):
        mask = mask_json(pattern(shape, kind, rng))
    elif kind == "nomask":
        mask = "nomask"
    elif kind == "none":
        mask = None
    else:
        mask = "flex" if kind == "flex" else "NONE"
    if form == "masked" and mask in (None, "flex", "NONE"):
        form = "arg"
    case = rt_case(shape, rng.choice("CF"), form, mask, rng.random() < 0.5)
    if rng.random() < 0.12:
        case["big"] = True   # int64 values beyond 2**53 (nanosecond time stamps and the like): not representable as float64
    if kind == "partial" and form == "arg" and rng.random() < 0.4:
        # the mask *array* was used for another round trip before, with other content (updated in place since): a round trip
        # is about the mask's content at the time of the call
        case["reused_mask"] = True
    return case


def all_rt_cases(max_size=9):
    for shape in SHAPES:
        size = int(np.prod(shape))
        for order in "CF":
            for quantified in (False, True):
                for form in ("arg", "masked"):
                    for mask in ("nomask",) + ((None, "flex", "NONE") if form == "arg" else ()):
                        yield rt_case(shape, order, form, mask, quantified)
                    if size <= max_size:
                        for bits in range(2 ** size):
                            yield rt_case(shape, order, form, mask_json(pattern(shape, None, bits=bits)), quantified)


def malformed_rt_cases():
    out = []
    for shape, order in [((2, 3), "C"), ((3, 2), "F"), ((2, 2, 2), "C")]:
        m = pattern(shape, None, bits=0b0110)
        for drop in (1, -1):
            out.append({"type": "rtbad", "shape": list(shape), "order": order, "mask": mask_json(m), "delta": drop,
                        "kwargs": False})
        out.append({"type": "rtbad", "shape": list(shape), "order": order, "mask": "NONE", "delta": 0, "kwargs": True})
        out.append({"type": "rtbad", "shape": list(shape), "order": order, "mask": None, "delta": 1, "kwargs": False})
    return out


def rt_payload(case):
    shape = tuple(case["shape"])
    data = np.arange(int(np.prod(shape)), dtype=float).reshape(shape) + 1
    if case.get("big"):
        data = (np.arange(int(np.prod(shape)), dtype=np.int64) + (2 ** 60 + 1)).reshape(shape)
    mask = py_mask(case["mask"])
    if case["form"] == "masked":
        x = np.ma.masked_array(data.copy(), mask=mask if isinstance(mask, np.ndarray) else np.ma.nomask)
        arg = None
    else:
        x = data.copy()
        arg = mask
    if case["quantified"]:
        x = UNITS.Quantity(x, "m")
    return data, x, arg, mask


def run_rt(case):
    data, x, arg, mask = rt_payload(case)
    out = {"data": data}
    try:
        if case.get("reused_mask") and isinstance(mask, np.ndarray) and mask.any() and not mask.all():
            target = mask.copy()
            mask[...] = np.roll(target.ravel(), 1).reshape(target.shape)    # same number of hidden cells, other cells
            c0 = to_compressed(np.asarray(data, dtype=float).copy(), order=case["order"], mask=mask)
            from_compressed(c0, tuple(case["shape"]), order=case["order"], mask=mask)
            mask[...] = target
        c = to_compressed(x, order=case["order"], mask=arg)
        out["c"] = c
        r = from_compressed(c, tuple(case["shape"]), order=case["order"], mask=mask)
        out["r"] = r
    except Exception as e:  # noqa
        out["err"] = err_class(e)
        out["msg"] = f"{type(e).__name__}: {e}"[:200]
    return out


def mag(x):
    return x.magnitude if hasattr(x, "magnitude") and hasattr(x, "units") else x


def is_quant(x):
    return hasattr(x, "units") and hasattr(x, "magnitude")


def ints(a):
    d = np.asarray(np.ma.getdata(a))
    if np.issubdtype(d.dtype, np.integer):
        return [int(v) for v in d.reshape(-1).tolist()]
    return [int(round(v)) if np.isfinite(v) else None for v in np.asarray(d, dtype=float).reshape(-1).tolist()]


def rt_model_request(case):
    shape = case["shape"]
    data = list(range(1, int(np.prod(shape)) + 1))
    if case.get("big"):
        data = [v + 2 ** 60 for v in data]
    payload = {"shape": shape, "data": data, "quantified": case["quantified"],
               "dmask": (case["mask"] if case["form"] == "masked" else None)}
    return {"op": "c18rt", "payload": payload, "order": case["order"],
            "mask": case["mask"] if case["form"] == "arg" else None, "emask": case["mask"], "eshape": shape,
            "kwargs": False}


def compare_rt(case, impl, m):
    if "err" in impl:
        got = {"err": impl["err"]}
        exp = m["compressed"] if "err" in m["compressed"] else m["expanded"]
        return None if exp == got else {"observable": "roundtrip-error", "impl": impl.get("msg"), "model": exp}
    if "err" in m["compressed"] or "err" in m["expanded"]:
        return {"observable": "roundtrip-error", "impl": "ok", "model": [m["compressed"], m["expanded"]]}
    c = ints(mag(impl["c"]))
    if c != m["compressed"]["ok"]:
        return {"observable": "to_compressed", "impl": c, "model": m["compressed"]["ok"]}
    r = mag(impl["r"])
    me = m["expanded"]["ok"]
    if list(np.shape(r)) != me["arr"]["shape"]:
        return {"observable": "from_compressed.shape", "impl": list(np.shape(r)), "model": me["arr"]["shape"]}
    rm = np.ma.getmaskarray(r).reshape(-1).tolist() if np.ma.isMaskedArray(r) else None
    mm = me["dmask"]
    mm_flat = None if mm is None else ([False] * len(me["arr"]["data"]) if mm == "nomask" else mm["flat"])
    if rm != mm_flat:
        return {"observable": "from_compressed.mask", "impl": rm, "model": mm_flat}
    vals = ints(r)
    for k, (a, b) in enumerate(zip(vals, me["arr"]["data"])):
        if b is not None and a != b:
            return {"observable": "from_compressed.values", "impl": vals, "model": me["arr"]["data"]}
    return None


def memory_order(shape, order):
    """multi-indices of `shape` in the requested memory order, computed without numpy's ravel"""
    idx = list(itertools.product(*[range(n) for n in shape]))
    if order == "F":
        idx.sort(key=lambda i: tuple(reversed(i)))
    return idx


def oracle_rt(case, impl):
    shape, order = tuple(case["shape"]), case["order"]
    data = impl["data"]
    if "err" in impl:
        return ("compress and expand with the same mask and order succeed", {"error": impl.get("msg")})
    marr = mask_array(case["mask"], shape)
    exact = np.issubdtype(np.asarray(data).dtype, np.integer)   # integer payloads are compared as integers
    num = (lambda v: int(v)) if exact else (lambda v: float(v))
    expect = [num(data[i]) for i in memory_order(shape, order) if not marr[i]]
    c, r = impl["c"], impl["r"]
    cv = [num(v) for v in np.asarray(np.ma.getdata(mag(c))).reshape(-1).tolist()]
    if cv != expect:
        return ("compressed data = the unmasked values in the requested memory order",
                {"compressed": cv, "expected": expect})
    metre = UNITS.Unit("m")
    if case["quantified"] != is_quant(c) or case["quantified"] != is_quant(r) or (
            case["quantified"] and not (c.units == metre and r.units == metre)):
        return ("units are kept by compress and expand", {"compressed": type(c).__name__, "expanded": type(r).__name__})
    rm = mag(r)
    if tuple(np.shape(rm)) != shape:
        return ("expanded data has the requested shape", {"shape": list(np.shape(rm))})
    fixed = isinstance(case["mask"], dict) or case["mask"] == "nomask"
    if fixed:
        if not np.ma.isMaskedArray(rm) or not np.array_equal(np.ma.getmaskarray(rm), marr):
            return ("expanding with a mask yields exactly that mask",
                    {"mask": np.ma.getmaskarray(rm).tolist(), "expected": marr.tolist()})
    rd = np.ma.getdata(rm)
    for i in memory_order(shape, order):
        if not marr[i] and num(rd[i]) != num(data[i]):
            return ("every unmasked value returns to its original position",
                    {"index": list(i), "value": num(rd[i]), "original": num(data[i])})
    return None


def run_rtbad(case):
    shape = tuple(case["shape"])
    mask = py_mask(case["mask"])
    n = int(np.prod(shape)) if not isinstance(mask, np.ndarray) else int((~mask).sum())
    vals = np.arange(max(n + case["delta"], 0), dtype=float) + 1
    kw = {"fill_value": -1.0} if case["kwargs"] else {}
    try:
        from_compressed(vals, shape, order=case["order"], mask=mask, **kw)
        return {"ok": True}
    except Exception as e:  # noqa
        return {"err": err_class(e)}


def rtbad_model_request(case):
    shape = case["shape"]
    mask = py_mask(case["mask"])
    n = int(np.prod(shape)) if not isinstance(mask, np.ndarray) else int((~mask).sum())
    k = max(n + case["delta"], 0)
    # a payload of k values, compressed without any mask, then expanded under the case's mask
    return {"op": "c18rt", "payload": {"shape": [k], "data": list(range(1, k + 1)), "dmask": None, "quantified": False},
            "order": case["order"], "mask": None, "emask": case["mask"], "eshape": shape, "kwargs": case["kwargs"]}


# ------------------------------------------------------------------------------------------------
# prepare under a fixed mask
# ------------------------------------------------------------------------------------------------
def gen_prep_case(rng):
    d = rng.randint(1, 3)
    dims = [rng.randint(1, 4) for _ in range(d)]
    order, rev, inc = rng.choice(list(gu.layouts(d)))
    spec = gu.make_spec(rng.choice(["uniform", "rect"]), dims, order, rev, inc, rng.choice(["cells", "points"]))
    g = gu.build_grid(spec)
    shape = tuple(int(n) for n in g.data_shape)
    kind = rng.choice(["partial", "partial", "partial", "empty", "full", "nomask"])
    mask = "nomask" if kind == "nomask" else mask_json(pattern(shape, kind, rng))
    form = rng.choice(["flat", "shaped", "time"])
    payload = rng.choice(["plain", "plain", "quantified", "masked-same", "masked-other"])
    case = {"type": "prep", "grid": spec, "mask": mask, "form": form, "payload": payload}
    if rng.random() < 0.3:
        # the metadata declares a fill value that also occurs as an ordinary value of the payload (values are 1, 2, …)
        case["fill"] = [rng.choice(["_FillValue", "missing_value"]), float(rng.randint(1, 3))]
    if rng.random() < 0.25 and kind == "partial":
        # the same mask array was used just before through another info whose grid differs in the flattening order only
        # (one domain mask for two models; `copy_with(grid=…)` shares the array): each `prepare` applies the mask of *its* info
        case["shared_before"] = True
    return case


def prep_payload(case, g):
    shape = tuple(int(n) for n in g.data_shape)
    size = int(np.prod(shape))
    form = case["form"]
    if form == "flat":
        x = np.arange(size, dtype=float) + 1
    elif form == "shaped":
        x = (np.arange(size, dtype=float) + 1).reshape(shape)
    else:
        x = (np.arange(size, dtype=float) + 1).reshape((1,) + shape)
    own = None
    if case["payload"].startswith("masked"):
        marr = mask_array(case["mask"], shape)
        if case["payload"] == "masked-other":
            marr = ~marr
        # the payload's own mask in the payload's form (flat payloads are given in grid order)
        own = np.reshape(marr, -1, order=g.order) if form == "flat" else marr.reshape(x.shape)
        x = np.ma.masked_array(x, own.copy())
    elif case["payload"] == "quantified":
        x = UNITS.Quantity(x, "m")
    return x, own


def run_prep(case):
    g = gu.build_grid(case["grid"])
    x, own = prep_payload(case, g)
    out = {"g": g, "x": x, "own": own}
    try:
        extra = {case["fill"][0]: case["fill"][1]} if case.get("fill") else {}
        info = fm.Info(time=None, grid=g, units="m", mask=py_mask(case["mask"]), **extra)
        if case.get("shared_before"):
            spec2 = dict(case["grid"], order="C" if case["grid"]["order"] == "F" else "F")
            g2 = gu.build_grid(spec2)
            try:
                prepare(np.arange(int(np.prod(g2.data_shape)), dtype=float) + 1, info.copy_with(grid=g2))
            except Exception:  # noqa
                pass
        out["r"] = prepare(x, info)
    except Exception as e:  # noqa
        out["err"] = err_class(e)
        out["msg"] = f"{type(e).__name__}: {e}"[:200]
    return out


def prep_model_request(case):
    g = gu.build_grid(case["grid"])
    x, own = prep_payload(case, g)
    xm = mag(x)
    payload = {"shape": list(np.shape(xm)), "data": ints(xm), "quantified": case["payload"] == "quantified",
               "dmask": None if own is None else mask_json(own)}
    return {"op": "c18prep", "gshape": [int(n) for n in g.data_shape], "order": g.order, "mask": case["mask"],
            "payload": payload}


def compare_prep(case, impl, m):
    mo = m["out"]
    if "err" in impl:
        return None if mo == {"err": impl["err"]} else {"observable": "prepare-error", "impl": impl.get("msg"), "model": mo}
    if "err" in mo:
        return {"observable": "prepare-error", "impl": "ok", "model": mo}
    r = mag(impl["r"])
    got = {"shape": list(np.shape(r)), "data": ints(r)}
    if got != mo["ok"]["arr"]:
        return {"observable": "prepare.data", "impl": got, "model": mo["ok"]["arr"]}
    gm = np.ma.getmaskarray(r).reshape(-1).tolist() if np.ma.isMaskedArray(r) else None
    mm = mo["ok"]["dmask"]
    mmf = None if mm is None else ([False] * len(got["data"]) if mm == "nomask" else mm["flat"])
    if gm != mmf:
        return {"observable": "prepare.mask", "impl": gm, "model": mmf}
    return None


def oracle_prep(case, impl):
    if case["payload"] == "masked-other":
        return None  # a payload that already carries a different mask keeps it (outside the statement)
    g = impl["g"]
    shape = tuple(int(n) for n in g.data_shape)
    if "err" in impl:
        return ("prepare accepts a payload of the grid's size under a fixed mask", {"error": impl.get("msg")})
    r = mag(impl["r"])
    if tuple(np.shape(r)) != (1,) + shape:
        return ("prepared data has shape (1,) + data_shape", {"shape": list(np.shape(r))})
    marr = mask_array(case["mask"], shape)
    if not np.ma.isMaskedArray(r) or not np.array_equal(np.ma.getmaskarray(r)[0], marr):
        return ("prepare under a fixed mask applies exactly that mask",
                {"applied": np.ma.getmaskarray(r)[0].tolist(), "info_mask": marr.tolist()})
    x = np.ma.getdata(mag(impl["x"]))
    rd = np.ma.getdata(r)[0]
    order = memory_order(shape, g.order)
    for k, i in enumerate(order):
        src = float(x.reshape(-1)[k]) if case["form"] == "flat" else float(x.reshape(shape)[i])
        if not marr[i] and float(rd[i]) != src:
            return ("prepared values sit where the payload (flat payloads: in grid order) put them",
                    {"index": list(i), "value": float(rd[i]), "payload": src})
    return None


# ------------------------------------------------------------------------------------------------
# acceptance table
# ------------------------------------------------------------------------------------------------
MASK_KINDS = ["flex", "NONE", "nomask", "A", "B", "empty", "full"]


def located(g, arr):
    pts = np.asarray(g.data_points, dtype=float)
    flat = np.reshape(arr, -1, order=g.order)
    return {tuple(np.round(p, 6)): bool(v) for p, v in zip(pts.tolist(), flat.tolist())}


def relayout(gsrc, gdst, m):
    loc = located(gsrc, m)
    pts = np.asarray(gdst.data_points, dtype=float)
    flat = np.array([loc[tuple(np.round(p, 6))] for p in pts.tolist()], dtype=bool)
    return flat.reshape(tuple(int(n) for n in gdst.data_shape), order=gdst.order)


def base_masks(shape):
    """two different partial masks in a (producer) layout"""
    size = int(np.prod(shape))
    a = np.array([(k * 5 + 1) % 7 < 3 for k in range(size)], dtype=bool)
    b = np.array([(k * 3 + 2) % 5 < 2 for k in range(size)], dtype=bool)
    if size > 1:
        a[0], a[-1] = True, False
        b[0], b[-1] = False, True
    elif size == 1:
        a[0], b[0] = True, False
    return a.reshape(shape), b.reshape(shape)


def gen_accept_case(rng):
    d = rng.randint(1, 3)
    dims = [rng.randint(1, 4) for _ in range(d)]
    loc = rng.choice(["cells", "points"])
    ls, lc = rng.choice(list(gu.layouts(d))), rng.choice(list(gu.layouts(d)))
    if rng.random() < 0.25:
        lc = (lc[0], ls[1], ls[2])
    prod = gu.make_spec("uniform", dims, ls[0], ls[1], ls[2], loc)
    cons = gu.make_spec("uniform", dims, lc[0], lc[1], lc[2], loc)
    grids = rng.choice(["both", "both", "both", "both", "cons-none", "prod-none", "none", "unstructured"])
    pmask = rng.choice(MASK_KINDS + ["A", "A"])
    cmask = rng.choice(MASK_KINDS + ["A", "A"])
    if pmask == "A" and rng.random() < 0.35:
        cmask = "Aobj"   # the producer's mask array itself, declared by a consumer that may be laid out differently
    if rng.random() < 0.08:
        # masks of different rank that numpy would broadcast onto each other: a producer mask that is constant along
        # its leading axes, a grid-less consumer declaring the 1-D profile
        n = rng.randint(2, 4)
        dims = [n] * rng.choice([2, 2, 3])
        ls = rng.choice(list(gu.layouts(len(dims))))
        prod = cons = gu.make_spec("uniform", dims, ls[0], ls[1], ls[2], loc)
        grids, pmask, cmask = rng.choice(["cons-none", "none"]), "R", "Rlow"
    return {"type": "accept", "prod": prod, "cons": cons, "grids": grids, "pmask": pmask, "cmask": cmask,
            "via": rng.choice(["accepts", "accepts", "link"])}


def all_accept_cases():
    specs = []
    for dims, loc in [((3, 4), "cells"), ((2, 3), "points"), ((3,), "points"), ((2, 3, 2), "points")]:
        d = len(dims)
        lay = list(gu.layouts(d))
        for ls in lay[:: 2 if d == 3 else 1]:
            for lc in lay:
                specs.append((gu.make_spec("uniform", dims, ls[0], ls[1], ls[2], loc),
                              gu.make_spec("uniform", dims, lc[0], lc[1], lc[2], loc)))
    for n, (prod, cons) in enumerate(specs):
        # every layout pair with both grids present; the grid-less / unstructured variants do not depend on the
        # consumer layout much, so they take every 25th pair
        for grids in ("both", "cons-none", "prod-none", "none", "unstructured"):
            if grids != "both" and n % 25:
                continue
            for pm in MASK_KINDS:
                for cm in MASK_KINDS + (["Aobj"] if pm == "A" else []):
                    for via in ("accepts", "link"):
                        yield {"type": "accept", "prod": prod, "cons": cons, "grids": grids, "pmask": pm, "cmask": cm,
                               "via": via}
    for dims in ([3, 3], [2, 2], [4, 4], [3, 3, 3], [2, 2, 2]):
        for ls in gu.layouts(len(dims)):
            g = gu.make_spec("uniform", dims, ls[0], ls[1], ls[2], "points")
            for grids in ("cons-none", "none"):
                for cm in ("Rlow", "R"):
                    for via in ("accepts", "link"):
                        yield {"type": "accept", "prod": g, "cons": g, "grids": grids, "pmask": "R", "cmask": cm, "via": via}


def accept_setup(case):
    """real grids and python masks of both sides, plus the boolean arrays behind them"""
    gp, gc = gu.build_grid(case["prod"]), gu.build_grid(case["cons"])
    if case["grids"] == "unstructured":
        # the same unstructured grid on both sides (casts of different layouts are different point lists)
        gp, gc = gp.to_unstructured(), gu.build_grid(case["prod"]).to_unstructured()
    shp_p = tuple(int(n) for n in gp.data_shape)
    a, b = base_masks(shp_p)

    def side(kind, g, is_cons):
        shp = tuple(int(n) for n in g.data_shape)
        if kind in ("flex", "NONE", "nomask"):
            return kind, (np.zeros(shp, dtype=bool) if kind == "nomask" else None)
        if kind == "empty":
            arr = np.zeros(shp, dtype=bool)
        elif kind == "full":
            arr = np.ones(shp, dtype=bool)
        elif kind in ("R", "Rlow"):
            # constant along all axes but the last one of the producer's shape; "Rlow" is the 1-D profile itself
            n = shp_p[-1]
            prof = np.array([(j * 2 + 1) % 3 < 1 for j in range(n)], dtype=bool)
            prof[0], prof[-1] = True, False
            arr = prof.copy() if kind == "Rlow" else np.broadcast_to(prof, shp_p).copy()
        elif kind == "Aobj":
            # the consumer declares the producer's mask *array* as it is (same numbers, same object when the shapes
            # agree) although its grid may be laid out differently: physically another set of cells
            arr = a if shp == a.shape else relayout(gp, g, a)
        else:
            base = a if kind == "A" else b
            arr = relayout(gp, g, base) if is_cons else base
        return mask_json(arr), arr

    pm, parr = side(case["pmask"], gp, False)
    cm, carr = side(case["cmask"], gc, True)
    return gp, gc, pm, parr, cm, carr


def run_accept(case):
    gp, gc, pm, parr, cm, carr = accept_setup(case)
    use_p = case["grids"] in ("both", "cons-none", "unstructured")
    use_c = case["grids"] in ("both", "prod-none", "unstructured")
    out = {"gp": gp, "gc": gc, "parr": parr, "carr": carr, "pm": pm, "cm": cm}
    try:
        pmask_obj = py_mask(pm)
        cmask_obj = py_mask(cm)
        if case["cmask"] == "Aobj" and isinstance(pmask_obj, np.ndarray) and np.shape(pmask_obj) == np.shape(cmask_obj):
            cmask_obj = pmask_obj   # one mask object defined once and handed to both components
        pinfo = fm.Info(time=T(0), grid=gp if use_p else None, units="m", mask=pmask_obj)
        cinfo = fm.Info(time=None, grid=gc if use_c else None, units="m", mask=cmask_obj)
        if case["via"] == "accepts":
            f1, f2 = {}, {}
            cinfo.accepts(pinfo, f1)
            pinfo.accepts(cinfo, f2, incoming_donwstream=True)
            out["up"] = "mask" not in f1
            out["down"] = "mask" not in f2
        else:
            if not use_p:
                pinfo = fm.Info(time=T(0), grid=gp, units="m", mask=pmask_obj)
            o = fm.Output(name="out", info=pinfo)
            i = fm.Input(name="in", info=cinfo)
            o >> i
            i.ping()
            try:
                i.exchange_info()
                out["link"] = "ok"
            except Exception as e:  # noqa
                out["link"] = err_class(e)
    except Exception as e:  # noqa
        out["err"] = err_class(e)
        out["msg"] = f"{type(e).__name__}: {e}"[:200]
    return out


def grid_ref(case, side):
    if case["grids"] == "unstructured":
        return "plain"
    return gu.model_grid(case[side])


def accept_model_request(case):
    gp, gc, pm, parr, cm, carr = accept_setup(case)
    use_p = case["grids"] in ("both", "cons-none", "unstructured") or case["via"] == "link"
    use_c = case["grids"] in ("both", "prod-none", "unstructured")
    sg = grid_ref(case, "cons") if use_c else None
    ig = grid_ref(case, "prod") if use_p else None
    return [{"op": "c18accept", "self": cm, "incoming": pm, "down": False, "sgrid": sg, "igrid": ig},
            {"op": "c18accept", "self": pm, "incoming": cm, "down": True, "sgrid": ig, "igrid": sg}]


def table(case, impl):
    """the documented acceptance table, masks compared by physical location"""
    pk, ck = case["pmask"], case["cmask"]
    if ck == "flex":
        return True
    if ck == "NONE":
        return pk == "NONE"
    if pk in ("flex", "NONE"):
        return False
    parr, carr = impl["parr"], impl["carr"]
    with_p = case["grids"] in ("both", "cons-none", "unstructured") or case["via"] == "link"
    with_c = case["grids"] in ("both", "prod-none", "unstructured")
    if pk == "nomask" or ck == "nomask":
        return not parr.any() and not carr.any()
    if with_p and with_c:
        return located(impl["gp"], parr) == located(impl["gc"], carr)
    # without both grids there is no layout to account for: the arrays themselves must be equal
    return parr.shape == carr.shape and bool(np.array_equal(parr, carr))


def compare_accept(case, impl, ms):
    if "err" in impl:
        exp = ms[0]["accepts"]
        return None if exp == {"err": impl["err"]} else {"observable": "accepts-error", "impl": impl.get("msg"), "model": exp}
    if case["via"] == "accepts":
        got = {"up": {"ok": impl["up"]}, "down": {"ok": impl["down"]}}
        exp = {"up": ms[0]["accepts"], "down": ms[1]["accepts"]}
        return None if got == exp else {"observable": "Info.accepts[mask]", "impl": got, "model": exp}
    # link: Output.get_info checks the producer side (downstream flag), then the input accepts
    ok = ms[1]["accepts"] == {"ok": True} and ms[0]["accepts"] == {"ok": True}
    err = "err" in ms[1]["accepts"] or "err" in ms[0]["accepts"]
    exp = "ok" if ok else ("other" if err else "FinamMetaDataError")
    return None if impl["link"] == exp else {"observable": "exchange_info", "impl": impl["link"], "model": exp}


def oracle_accept(case, impl):
    if "err" in impl:
        return ("mask specifications can be compared", {"error": impl.get("msg")})
    want = table(case, impl)
    if case["via"] == "accepts":
        got = impl["up"]
        if got != want or impl["down"] != want:
            return ("flexible consumer accepts any producer, unmasked consumer only unmasked producers, fixed-mask "
                    "consumer only producers whose mask is equal after accounting for grid layout",
                    {"consumer_accepts": impl["up"], "producer_side_check": impl["down"], "table": want})
    else:
        got = impl["link"] == "ok"
        if got != want or impl["link"] not in ("ok", "FinamMetaDataError"):
            return ("metadata exchange over a link succeeds exactly when the mask table accepts",
                    {"exchange": impl["link"], "table": want})
    return None


# ------------------------------------------------------------------------------------------------
def model_requests(case):
    t = case["type"]
    if t == "rt":
        return [rt_model_request(case)]
    if t == "rtbad":
        return [rtbad_model_request(case)]
    if t == "prep":
        return [prep_model_request(case)]
    return accept_model_request(case)


def nontrivial(case):
    t = case["type"]
    if t == "rt":
        return isinstance(case["mask"], dict) and any(case["mask"]["flat"]) and not all(case["mask"]["flat"])
    if t == "prep":
        return isinstance(case["mask"], dict) and any(case["mask"]["flat"])
    if t == "accept":
        return case["cmask"] not in ("flex",) and case["pmask"] not in ("flex",)
    return True


def evaluate(case, ms, res):
    t = case["type"]
    o = d = None
    if t == "rt":
        impl = run_rt(case)
        d = compare_rt(case, impl, ms[0])
        if case["mask"] in (None, "flex", "NONE", "nomask") or isinstance(case["mask"], dict):
            o = oracle_rt(case, impl)
    elif t == "rtbad":
        impl = run_rtbad(case)
        exp = ms[0]["expanded"]
        exp = {"ok": True} if "ok" in exp else exp
        d = None if impl == exp else {"observable": "from_compressed-error", "impl": impl, "model": exp}
    elif t == "prep":
        impl = run_prep(case)
        d = compare_prep(case, impl, ms[0])
        o = oracle_prep(case, impl)
    else:
        impl = run_accept(case)
        d = compare_accept(case, impl, ms)
        o = oracle_accept(case, impl)
    if d:
        res.diverge(f"mask/{t}/{d['observable']}", case, gu.short(d.get("impl")), gu.short(d.get("model")))
    if o:
        sig = None
        res.fail(case, o[0], o[1], sig)


def count(case, res):
    t = case["type"]
    res.count("case_types", t)
    if t == "rt":
        res.count("rt_rank", len(case["shape"]))
        res.count("rt_order", case["order"])
        m = case["mask"]
        kind = ("empty" if not any(m["flat"]) else "full" if all(m["flat"]) else "partial") if isinstance(m, dict) else str(m)
        res.count("rt_mask", kind)
        res.count("rt_payload", f"{case['form']}/{'quantified' if case['quantified'] else 'plain'}")
    elif t == "prep":
        res.count("prep_form", f"{case['form']}/{case['payload']}")
        res.count("prep_order", gu.spec_flags(case["grid"])[2])
    elif t == "accept":
        res.count("accept_pair", f"{case['cmask']}<-{case['pmask']}")
        res.count("accept_grids", case["grids"])
        res.count("accept_via", case["via"])


def corpus():
    u = gu.make_spec
    m23 = {"shape": [2, 3], "flat": [True, True, False, False, False, False]}
    return [
        # F13: unmasked quantified payload with an explicit mask argument
        rt_case((2, 3), "F", "arg", {"shape": [2, 3], "flat": [True, False, False, False, False, True]}, True),
        rt_case((2, 3), "C", "arg", m23, True),
        rt_case((3, 2, 2), "F", "masked", mask_json(pattern((3, 2, 2), None, bits=0b101100111000)), False),
        # F17: flat payload on an order="F" grid under a fixed mask
        {"type": "prep", "grid": u("uniform", [3, 4], "F", False, [True, True], "cells"), "mask": m23, "form": "flat",
         "payload": "plain"},
        {"type": "prep", "grid": u("uniform", [3, 4], "F", False, [True, True], "cells"), "mask": m23, "form": "flat",
         "payload": "quantified"},
        # F9: fixed-mask consumer without a grid of its own against a different producer mask
        {"type": "accept", "prod": u("uniform", [3, 3], "F", False, [True, True], "cells"),
         "cons": u("uniform", [3, 3], "F", False, [True, True], "cells"), "grids": "prod-none", "pmask": "B", "cmask": "A",
         "via": "accepts"},
        {"type": "accept", "prod": u("uniform", [3, 3], "F", False, [True, True], "cells"),
         "cons": u("uniform", [3, 3], "F", False, [True, True], "cells"), "grids": "cons-none", "pmask": "B", "cmask": "A",
         "via": "link"},
        {"type": "accept", "prod": u("uniform", [3, 4], "F", False, [True, True], "cells"),
         "cons": u("uniform", [3, 4], "C", True, [True, False], "cells"), "grids": "both", "pmask": "A", "cmask": "A",
         "via": "link"},
    ]


def check_cases(cases, res):
    reqs, spans = [], []
    for c in cases:
        r = model_requests(c)
        spans.append((len(reqs), len(reqs) + len(r)))
        reqs.extend(r)
    models = common.lean_batch(reqs)
    for c, (a, b) in zip(cases, spans):
        res.case(c, nontrivial(c))
        count(c, res)
        evaluate(c, models[a:b], res)


def run(ctx, res):
    res.rule = ("round trips: shapes {1,2,3}^(1..3) x order x {mask argument, masked payload} x {plain, quantified} x "
                "masks {None, FLEX, NONE, nomask, every boolean mask of arrays with <= 9 elements (thorough) / random "
                "empty, partial, full masks (quick)} plus malformed value counts; prepare: random grid layouts x "
                "{flat, shaped, with time axis} x {plain, quantified, masked-same, masked-other} x mask kinds; "
                "acceptance: mask kinds {FLEX, NONE, nomask, A, B, empty, full}^2 x layout pairs x {both grids, "
                "consumer/producer/both without grid, unstructured casts} x {Info.accepts both directions, real "
                "Output>>Input exchange}; non-trivial = a partial mask / two non-flexible specifications")
    res.assumptions = [
        "values are small integers in float arrays; units are metres or absent",
        "two fixed masks are 'equal after accounting for grid layout' iff they flag the same physical coordinates "
        "(data_points of the two grids); when a side has no grid the arrays themselves must be equal",
        "a payload that already carries a different mask than the info keeps its own mask in prepare (the statement "
        "is read as being about payloads without a mask or with the info's mask)",
        "masked positions of an expanded array hold unspecified values and are not compared",
    ]
    if ctx.tier == "thorough":
        rts = list(all_rt_cases())
        accepts = list(all_accept_cases())
        res.exhaustive = True
    else:
        rts = [gen_rt_case(ctx.rng) for _ in range(4000)]
        accepts = []
    preps = [gen_prep_case(ctx.rng) for _ in range(ctx.n(2000, 8000))]
    accepts += [gen_accept_case(ctx.rng) for _ in range(ctx.n(4000, 5000))]
    check_cases(corpus() + malformed_rt_cases() + rts + preps + accepts, res)


def search(ctx, res, divergences, broken):
    cases = [d["case"] for d in divergences if d.get("case")] + corpus()
    cases += [gen_rt_case(ctx.rng) for _ in range(ctx.n(3000, 20000))]
    cases += [gen_prep_case(ctx.rng) for _ in range(ctx.n(3000, 20000))]
    cases += [gen_accept_case(ctx.rng) for _ in range(ctx.n(3000, 20000))]
    for c in cases:
        if c["type"] == "rtbad":
            continue
        res.case(c, nontrivial(c))
        try:
            if c["type"] == "rt":
                o = oracle_rt(c, run_rt(c))
            elif c["type"] == "prep":
                o = oracle_prep(c, run_prep(c))
            else:
                o = oracle_accept(c, run_accept(c))
        except Exception as e:  # noqa
            o = ("mask helpers run on valid input", {"exception": f"{type(e).__name__}: {e}"[:300]})
        if o:
            res.fail(c, o[0], o[1])
            return


def replay(ctx, rp):
    case = rp.get("input") or (rp.get("diverging_case") or {}).get("case")
    res = common.Result()
    evaluate(case, common.lean_batch(model_requests(case)), res)
    return {"fails": bool(res.failures), "oracle": res.failures[:1], "divergences": res.divergences[:1]}
