"""C09 — output history is never dropped while needed and never grows unboundedly.

Correspondence: random interleavings of publications and per-end-point pulls are run on a real
`finam.Output` (end points: direct `Input`s, `Input`s behind a pass-through `Scale`, push-based
`PreviousTime`/`NextTime` adapters) and through `Finam.stepImpl` of the Lean model.
Observables: every pull's answer (publication index or error class), `len(Output.data)` after
every event, and which object got registered at the output.
Oracle (independent of the model): a second real `Output` fed with the same publications whose
extra end point never pulls (so nothing is ever evicted) must give the same answers, and the
retained length must respect the bound of the property.
"""
import datetime as dt
import numpy as np

from .. import common
from ..fmutil import T, ad, err_class, fm, scalar, us

MODULES = ["Output", "OutputLemmas"]
GEN_OBLIGATIONS = ["caching_push_based", "push_based_adapters_are_caching", "passthrough_flags", "slot_flags"]
KINDS = ["direct", "scale", "prev", "next", "scale_prev", "prev_scale", "scale_shared", "callback", "dpush_shared", "dfix_shared"]
PUSH_BASED = {"prev", "next", "scale_prev", "prev_scale"}


def gen_case(rng, max_events=40):
    n = rng.choice([1, 1, 2, 2, 2, 3, 3, 4])
    eps = [rng.choices(KINDS, weights=[36, 16, 10, 8, 8, 8, 14, 9, 9, 12])[0] for _ in range(n)]
    scale = rng.choice([1, 1, 2, 1000, 3_600_000_000, 86_400_000_000])
    gaps = rng.choice([[1, 2, 3], [2, 4, 6, 10], [1, 5, 7, 20], [3]])
    t = rng.randrange(0, 5) * scale
    events = []
    pubs = []
    last = [None] * n
    pullers = [k for k in range(n) if eps[k] not in PUSH_BASED]
    # consumers behind push-based adapters pull too (from the adapter's buffer, between and on publications): the adapter
    # is the output's end point, its own retained history is bounded the same way
    buffered = [k for k in range(n) if eps[k] in PUSH_BASED]
    blast = {k: None for k in buffered}
    nev = rng.randrange(4, max_events)
    for _ in range(nev):
        r = rng.random()
        if pubs and buffered and r > 0.85:
            k = rng.choice(buffered)
            lo = blast[k] if blast[k] is not None else pubs[0]
            if pubs[-1] >= lo:
                tt = lo + rng.randrange(0, (pubs[-1] - lo) // max(scale // 2, 1) + 1) * max(scale // 2, 1)
                events.append(["bpull", k, tt])
                blast[k] = tt
            continue
        if not pubs or r < 0.4 or not pullers:
            t = t + rng.choice(gaps) * scale if pubs else t
            pubs.append(t)
            events.append(["push", t])
        else:
            k = rng.choice(pullers)
            lo = last[k] if last[k] is not None else pubs[0] - (scale if rng.random() < 0.1 else 0)
            mode = rng.random()
            prev_pull = next((e for e in reversed(events) if e[0] == "pull"), None)
            if prev_pull is not None and prev_pull[1] != k and prev_pull[2] >= lo and rng.random() < 0.2:
                tt = prev_pull[2]  # another end point asks for the time just served (lock-step consumers)
            elif mode < 0.35:
                cands = [p for p in pubs if p >= lo]
                tt = rng.choice(cands) if cands else lo
            elif mode < 0.85:
                hi = pubs[-1]
                tt = lo + (rng.randrange(0, max(1, (hi - lo) // max(scale // 2, 1)) + 1) * max(scale // 2, 1)) if hi >= lo else lo
            else:
                tt = max(lo, pubs[-1]) + rng.choice([0, 1, 2]) * scale  # at or beyond the newest
            events.append(["pull", k, tt])
            if pubs[0] <= tt <= pubs[-1]:  # only successful pulls are recorded by the output
                last[k] = tt
    return {"endpoints": eps, "events": events}


def build(case):
    """real objects: (output, [end point objects in registration order], [pulling inputs])"""
    info = fm.Info(time=T(0), grid=fm.NoGrid(), units="")
    out = fm.Output(name="out", info=info)
    inputs, regs, adapters = [], [], []
    shared = None
    dshared = None
    fshared = None
    for i, kind in enumerate(case["endpoints"]):
        inp = fm.Input(name=f"in{i}", info=fm.Info(time=None, grid=None, units=None))
        if kind == "callback":
            # an input that is notified of publications but pulls on its own schedule (later, older times)
            inp = fm.CallbackInput(callback=lambda caller, time: None, name=f"in{i}", info=fm.Info(time=None, grid=None, units=None))
        if kind == "dpush_shared":
            # inputs behind one DelayToPush object (it forwards min(requested time, newest publication) for each of them)
            if dshared is None:
                dshared = ad.DelayToPush()
                out >> dshared
            dshared >> inp
            inputs.append(inp)
            adapters.append([dshared])
            regs.append(inp)
            continue
        if kind == "dfix_shared":
            # inputs behind one DelayFixed object with a zero delay (an identity on request times): each end point's requests
            # reach the output as they are, also when they go back behind another end point's
            if fshared is None:
                fshared = ad.DelayFixed(dt.timedelta(0))
                out >> fshared
            fshared >> inp
            inputs.append(inp)
            adapters.append([fshared])
            regs.append(inp)
            continue
        if kind == "scale_shared" and shared is not None:
            # a second (third, ...) input behind the same pass-through adapter object: the adapter branches
            shared >> inp
            inputs.append(inp)
            adapters.append([shared])
            regs.append(inp)
            continue
        chain = {
            "direct": [],
            "callback": [],
            "scale_shared": [ad.Scale(1.0)],
            "scale": [ad.Scale(1.0)],
            "prev": [ad.PreviousTime()],
            "next": [ad.NextTime()],
            "scale_prev": [ad.Scale(1.0), ad.PreviousTime()],
            "prev_scale": [ad.PreviousTime(), ad.Scale(1.0)],
        }[kind]
        cur = out
        for a in chain:
            cur = cur >> a
        cur >> inp
        if kind in ("scale", "scale_shared"):
            shared = chain[0]
        inputs.append(inp)
        adapters.append(chain)
        push_based = [a for a in chain if a.needs_push]
        regs.append(push_based[0] if push_based else inp)
    for inp in inputs:
        inp.ping()
    for inp in inputs:
        inp.exchange_info()
    return out, regs, inputs


def run_impl(case, unlimited=False):
    out, regs, inputs = build(case)
    if unlimited:
        # an extra end point that never pulls keeps the whole history
        extra = fm.Input(name="never", info=fm.Info(time=None, grid=None, units=None))
        out >> extra
        extra.ping()
        extra.exchange_info()
    registered = list(out._connected_inputs.keys())
    reg_ok = registered[: len(regs)] == regs if not unlimited else True
    answers, lens = [], []
    idx = 0
    for ev in case["events"]:
        if ev[0] == "push":
            out.push_data(np.array(float(idx)), T(ev[1]))
            idx += 1
            answers.append(None)
        else:
            _, k, t = ev
            try:
                v = inputs[k].pull_data(T(t))
                answers.append({"ok": int(round(scalar(v)))})
            except Exception as e:  # noqa
                answers.append({"err": err_class(e)})
            if ev[0] == "bpull":
                answers[-1] = dict(answers[-1], buffer=len(regs[k].data))   # regs[k]: the push-based adapter of end point k
        lens.append(len(out.data))
    lasts = [us(out._connected_inputs[r]) if r in out._connected_inputs else "not-registered" for r in regs]
    return {"answers": answers, "lens": lens, "registered_ok": reg_ok, "lasts": lasts}


def model_request(case):
    """translate to model events; pushes imply pulls of the push-based end points at the push time"""
    evs, group = [], []
    idx = 0
    eps = case["endpoints"]
    for gi, ev in enumerate(case["events"]):
        if ev[0] == "push":
            evs.append(["push", ev[1], idx])
            group.append(gi)
            idx += 1
            for k, kind in enumerate(eps):
                if kind in PUSH_BASED:
                    evs.append(["pull", k, ev[1]])
                    group.append(gi)
        elif ev[0] == "bpull":
            continue   # answered from the adapter's buffer: the output does not see it
        else:
            evs.append(["pull", ev[1], effective_request(case, gi)])
            group.append(gi)
    return {"op": "c09", "n": len(eps), "events": evs}, group


def effective_request(case, gi):
    """the time that reaches the output for pull event `gi`: behind a DelayToPush it is min(requested, newest publication)"""
    ev = case["events"][gi]
    if case["endpoints"][ev[1]] != "dpush_shared":
        return ev[2]
    pubs = [e[1] for e in case["events"][:gi] if e[0] == "push"]
    return min(ev[2], pubs[-1]) if pubs else ev[2]


def compare(case, impl, model, group):
    """returns None or a description of the first difference"""
    eps = case["endpoints"]
    m_answers, m_lens = {}, {}
    for i, gi in enumerate(group):
        ev_is_push = case["events"][gi][0] == "push"
        a = model["impl"][i]
        if not ev_is_push:
            m_answers[gi] = a
        m_lens[gi] = model["lens"][i]
    for gi, ev in enumerate(case["events"]):
        if ev[0] == "pull":
            a, b = impl["answers"][gi], m_answers[gi]
            if a != b:
                return {"event": gi, "impl": a, "model": b}
        if gi in m_lens and impl["lens"][gi] != m_lens[gi]:
            return {"event": gi, "impl_len": impl["lens"][gi], "model_len": m_lens[gi]}
    if not impl["registered_ok"]:
        return {"registered": "the object registered at the output differs from the model's `registered`"}
    return None


def oracle(case, impl):
    """property evaluated on the implementation only"""
    ref = run_impl(case, unlimited=True)
    for gi, ev in enumerate(case["events"]):
        if ev[0] == "pull" and impl["answers"][gi] != ref["answers"][gi]:
            return ("a pull must return what an output with unlimited history returns",
                    {"event": gi, "bounded": impl["answers"][gi], "unlimited": ref["answers"][gi]})
    # independent of the package: the value served is a publication nearest to the time that reaches the output (for end
    # points behind pass-through adapters the request itself; behind DelayToPush min(request, newest publication))
    seen = []
    for gi, ev in enumerate(case["events"]):
        if ev[0] == "push":
            seen.append(ev[1])
            continue
        a = impl["answers"][gi]
        if ev[0] == "bpull":
            # the adapter's own retained history: the last entry at or before the request and everything newer
            if a and "ok" in a:
                bound = sum(1 for p in seen if p > ev[2]) + 1
                if a["buffer"] > bound:
                    return ("retained history stays bounded: a push-based adapter keeps the publications newer than its consumer's "
                            "last request and one more", {"event": gi, "end_point": case["endpoints"][ev[1]], "request": ev[2],
                                                          "retained_by_the_adapter": a["buffer"], "bound": bound})
            continue
        if case["endpoints"][ev[1]] in PUSH_BASED or not a or "ok" not in a or not seen:
            continue
        r = effective_request(case, gi)
        if not (seen[0] <= r <= seen[-1]):
            continue
        dmin = min(abs(r - p) for p in seen)
        nearest = [k for k, p in enumerate(seen) if abs(r - p) == dmin]
        if a["ok"] not in nearest:
            return ("a pull returns the publication nearest to the time that reaches the output (what an output with "
                    "unlimited history returns)", {"event": gi, "end_point": case["endpoints"][ev[1]], "request": ev[2],
                                                   "reaches_the_output_for": r, "served_publication": a["ok"], "nearest": nearest})
    # bound, evaluated after every event once every end point has pulled
    pubs = []
    last = [None] * len(case["endpoints"])
    eps = case["endpoints"]
    for gi, ev in enumerate(case["events"]):
        if ev[0] == "push":
            pubs.append(ev[1])
            for k, kind in enumerate(eps):
                if kind in PUSH_BASED:
                    last[k] = ev[1]
        elif ev[0] == "bpull":
            pass
        elif "ok" in (impl["answers"][gi] or {}):
            last[ev[1]] = effective_request(case, gi)
        if all(x is not None for x in last):
            m = min(last)
            bound = sum(1 for p in pubs if p > m) + 1
            if impl["lens"][gi] > bound:
                return ("retained history <= publications newer than the slowest end point's last request + 1",
                        {"event": gi, "retained": impl["lens"][gi], "bound": bound})
    return None


def check_cases(cases, res):
    reqs, groups = [], []
    for c in cases:
        r, g = model_request(c)
        reqs.append(r)
        groups.append(g)
    models = common.lean_batch(reqs)
    for c, m, g in zip(cases, models, groups):
        impl = run_impl(c)
        evictions = sum(1 for a, b in zip(impl["lens"], impl["lens"][1:]) if b < a)
        nontrivial = evictions > 0 and any("ok" in (a or {}) for a in impl["answers"])
        res.case(c, nontrivial)
        res.count("endpoints", len(c["endpoints"]))
        for k in c["endpoints"]:
            res.count("endpoint_kinds", k)
        res.count("evictions", n=evictions)
        for a in impl["answers"]:
            if a and "err" in a:
                res.count("errors", a["err"])
        if not m["pre"]:
            res.count("precondition_false")
            continue
        if m["impl"] != m["spec"]:
            raise common.MachineryError("model contradicts its own theorem evict_refines_unbounded")
        d = compare(c, impl, m, g)
        if d:
            res.diverge("link/output-history", c, d, None)
        o = oracle(c, impl)
        if o:
            res.fail(c, o[0], o[1])


def corpus():
    return [
        {"endpoints": ["direct", "direct"],
         "events": [["push", 0], ["pull", 0, 0], ["pull", 1, 0], ["push", 4], ["pull", 0, 4], ["push", 9],
                    ["pull", 1, 3], ["pull", 0, 9], ["pull", 1, 9]]},
        {"endpoints": ["direct", "prev"],
         "events": [["push", 0], ["push", 5], ["pull", 0, 2], ["push", 10], ["pull", 0, 10], ["push", 12]]},
        {"endpoints": ["scale", "scale_prev", "direct"],
         "events": [["push", 0], ["pull", 0, 0], ["push", 2], ["pull", 2, 1], ["push", 4], ["pull", 0, 3],
                    ["pull", 2, 4], ["pull", 0, 4]]},
    ]


def run(ctx, res):
    res.rule = ("random interleavings of publications (increasing times, several time scales) and per-end-point "
                "pulls (non-decreasing per end point; on, between and beyond publications), 1-4 end points "
                "(direct, behind Scale, behind PreviousTime/NextTime); non-trivial = at least one eviction "
                "and one served pull; distinct by canonical hash of the case")
    res.assumptions = ["request times per end point non-decreasing and publication times increasing "
                       "(preconditions stated by the property)"]
    cases = corpus() + [gen_case(ctx.rng, ctx.n(40, 80)) for _ in range(ctx.n(400, 6000))]
    check_cases(cases, res)


def search(ctx, res, divergences, broken):
    cases = [gen_case(ctx.rng, 60) for _ in range(ctx.n(3000, 20000))]
    for d in divergences:
        if d.get("case"):
            cases.insert(0, d["case"])
    for c in cases:
        impl = run_impl(c)
        res.case(c, True)
        o = oracle(c, impl)
        if o:
            res.fail(c, o[0], o[1])
            return


def shrink(ctx, f):
    case = f["case"]
    evs = list(case["events"])
    changed = True
    while changed:
        changed = False
        for i in range(len(evs)):
            trial = {"endpoints": case["endpoints"], "events": evs[:i] + evs[i + 1:]}
            try:
                impl = run_impl(trial)
                o = oracle(trial, impl)
            except Exception:
                o = None
            if o:
                evs = trial["events"]
                f = {"case": trial, "required": o[0], "observed": o[1], "signature": f.get("signature")}
                changed = True
                break
    return f


def replay(ctx, rp):
    case = rp.get("input") or (rp.get("diverging_case") or {}).get("case")
    impl = run_impl(case)
    o = oracle(case, impl)
    req, grp = model_request(case)
    m = common.lean_batch([req])[0]
    return {"fails": bool(o), "oracle": o, "impl": impl, "model": m, "correspondence": compare(case, impl, m, grp)}
