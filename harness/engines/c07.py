"""C07 — after connect both ends of every link agree on metadata; conflicts are rejected.

Correspondence: one producer output and one or two consumers (directly, behind a shared adapter,
or behind separate adapters: none, Scale, RegridNearest, GridToValue, SumOverTime) with every
combination of set / unset time, grid, units and an extra metadata entry on both sides, grid
kinds (NoGrid, uniform layouts incl. reversed / decreasing axes, other extent, point data,
unstructured), unit pairs (same, scaled, offset, incompatible, unset) and mask kinds (flexible,
none, explicit equal / different / re-laid-out) are run through the real `Composition.connect()`
and through `Finam.Info.exchangeAll` of the Lean model.  Observables: error class,
canonicalised `output.info`, `input.info` and the adapters' `in_info` / `info`.
Oracle (independent of the model): after success no field of any input info is unset, the
input grid covers the same data locations as the delivered grid, units have the delivered units'
dimension, the declared mask requirement is met by the delivered mask (compared by masked
locations), fields left unset on either side carry the other side's values; ends that specify
grids with different locations, units of different dimension or unmet mask requirements must end in
FinamMetaDataError.
"""
import datetime as dt
import logging

import numpy as np

import finam as fm
from finam.data.tools import mask as mask_tools

from .. import common
from ..fmutil import limited, T, ad, err_class, us

MODULES = ["Info", "InfoLemmas"]
GEN_OBLIGATIONS = ["mask_enum"]
DAY = dt.timedelta(days=1)
DAY_US = 86_400_000_000

# ---------------------------------------------------------------------------------------------
# catalogues
# ---------------------------------------------------------------------------------------------
_PTS = np.array([[0.0, 0.0], [1.0, 0.0], [0.0, 1.0], [1.0, 1.0], [2.0, 0.5]])
_CELLS = np.array([[0, 1, 2], [1, 3, 2], [1, 4, 3]])
_PTS6 = np.array([[0.0, 0.0], [3.0, 0.0], [3.0, 3.0], [0.0, 3.0], [1.0, 1.0], [2.0, 2.0]])
_CELLS6 = np.array([[0, 1, 4], [1, 5, 4], [1, 2, 5], [2, 3, 5], [3, 4, 5], [3, 0, 4]])
GRIDS = [
    ("nogrid", fm.NoGrid()),
    ("u34", fm.UniformGrid((3, 4))),
    ("u34_rev", fm.UniformGrid((3, 4), axes_reversed=True)),
    ("u34_dec", fm.UniformGrid((3, 4), axes_increase=[False, True])),
    ("u45", fm.UniformGrid((4, 5))),
    ("u34_pts", fm.UniformGrid((3, 4), data_location=fm.Location.POINTS)),
    ("unst", fm.UnstructuredGrid(_PTS, _CELLS, [fm.CellType.TRI] * 3)),
    # one mesh with as many cells as nodes (6/6), once with cell data and once with node data: equal data *shapes*,
    # different data *locations*
    ("unst6", fm.UnstructuredGrid(_PTS6, _CELLS6, [fm.CellType.TRI] * 6)),
    ("unst6_pts", fm.UnstructuredGrid(_PTS6, _CELLS6, [fm.CellType.TRI] * 6, data_location=fm.Location.POINTS)),
    # grid-less arrays: a flexible axis (-1) and two fixed lengths are three different sets of data locations
    ("nogrid1_flex", fm.NoGrid(1)),
    ("nogrid1_5", fm.NoGrid(data_shape=(5,))),
    ("nogrid1_7", fm.NoGrid(data_shape=(7,))),
    # two rectilinear grids with the same extent and node count, one interior node apart: different data locations
    ("rect_a", fm.RectilinearGrid([np.array([0.0, 1.0, 3.0, 4.0]), np.array([0.0, 1.0, 2.0])])),
    ("rect_b", fm.RectilinearGrid([np.array([0.0, 2.0, 3.0, 4.0]), np.array([0.0, 1.0, 2.0])])),
    # one geometry under two geographic reference systems that differ in axis order (latitude first / longitude first):
    # the same numbers are different places
    ("u34_4326", fm.UniformGrid((3, 4), crs="EPSG:4326")),
    ("u34_crs84", fm.UniformGrid((3, 4), crs="OGC:CRS84")),
]
GRID_NAMES = [n for n, _ in GRIDS]
_A = np.zeros((2, 3), dtype=bool)
_A[0, 0] = True
_A[1, 2] = True
_B = np.zeros((2, 3), dtype=bool)
_B[1, 1] = True
# explicit masks: id -> array (ids 1..); the layouts they fit are listed in MASK_FITS
MASKS = {1: _A, 2: _B, 3: np.ascontiguousarray(_A.T), 4: np.ascontiguousarray(_A[::-1, :]),
         5: np.zeros((2, 3), dtype=bool)}   # 5: an explicit mask that hides nothing (still a mask: a `Mask.NONE` consumer refuses it)
MASK_FITS = {1: ["u34", "u34_dec", None], 2: ["u34", "u34_dec", None], 3: ["u34_rev", None], 4: ["u34_dec", "u34", None],
             5: ["u34", "u34_dec", None]}
UNITS = ["m", "km", "s", "K", "degC", "mm"]
N_UNITS = len(UNITS)
_S = fm.UNITS.Unit("s")


def unit_obj(k):
    if k < N_UNITS:
        return fm.UNITS.Unit(UNITS[k])
    return (1.0 * fm.UNITS.Unit(UNITS[k - 100]) * _S).to_reduced_units().units


ALL_UNIT_IDS = list(range(N_UNITS)) + [100 + k for k in range(N_UNITS) if k != 4]  # (degC * s is not reducible in pint)


def unit_id(u):
    if u is None:
        return None
    u = fm.UNITS.Unit(u)
    for k in ALL_UNIT_IDS:
        if unit_obj(k) == u:
            return k
    return str(u)


def grid_id(g):
    if g is None:
        return None
    for k, (_, obj) in enumerate(GRIDS):
        if g is obj:
            return k
    if isinstance(g, fm.NoGrid) and g.dim == 0:
        return 0
    for k, (_, obj) in enumerate(GRIDS):
        if type(g) is type(obj) and g == obj:
            return k
    return repr(g)


def mask_id(m):
    if m is None:
        return None
    if m is fm.Mask.FLEX:
        return "flex"
    if m is fm.Mask.NONE:
        return "none"
    for k, arr in MASKS.items():
        if np.shape(m) == arr.shape and np.array_equal(m, arr):
            return k
    return "mask" + repr(np.asarray(m).tolist())


_REL = None


def relations():
    """what the implementation says about the catalogue objects (parameters of the model)"""
    global _REL
    if _REL is None:
        n = len(GRIDS)
        gc, ge, tr = [], [], []
        for a in range(n):
            for b in range(n):
                ga, gb = GRIDS[a][1], GRIDS[b][1]
                # an exception of the package's own relation is "not related" for the model (which then expects a
                # metadata error); the run on the real package shows what the exception does to connect()
                try:
                    if ga.compatible_with(gb):
                        gc.append([a, b])
                except Exception:  # noqa
                    pass
                try:
                    if ga == gb:
                        ge.append([a, b])
                except Exception:  # noqa
                    pass
                try:
                    ga.get_transform_to(gb)
                    tr.append([a, b])
                except Exception:  # noqa
                    pass
        def _uc(a, b):
            try:
                return fm.data.tools.compatible_units(unit_obj(a), unit_obj(b))
            except Exception:  # noqa
                return False
        uc = [[a, b] for a in ALL_UNIT_IDS for b in ALL_UNIT_IDS if _uc(a, b)]
        me = []
        gopts = [None] + list(range(n))
        for a, ma in MASKS.items():
            for b, mb in MASKS.items():
                for x in gopts:
                    for y in gopts:
                        if (x is not None and GRID_NAMES[x] not in MASK_FITS[a]) or \
                                (y is not None and GRID_NAMES[y] not in MASK_FITS[b]):
                            continue
                        try:
                            ok = bool(mask_tools.masks_equal(ma, mb, None if x is None else GRIDS[x][1],
                                                             None if y is None else GRIDS[y][1]))
                        except Exception:  # noqa
                            ok = False
                        if ok:
                            me.append([a, b, x, y])
        mf = []
        for a, ma in MASKS.items():
            for x in range(n):
                try:
                    fm.Info(time=None, grid=GRIDS[x][1], mask=ma)
                    mf.append([a, x])
                except fm.FinamMetaDataError:
                    pass
        _REL = {"maskFits": mf, "gridCompat": gc, "gridEq": ge, "transformOk": tr, "unitsCompat": uc, "maskEq": me, "noGrid": 0,
                "timesSecond": [[k, 100 + k] for k in range(N_UNITS) if k != 4]}
    return _REL


# ---------------------------------------------------------------------------------------------
# cases
# ---------------------------------------------------------------------------------------------
U34 = [1, 2, 3]  # the 3x4 cell grids in their three layouts
NOGRID1 = [9, 10, 11]  # one-dimensional grid-less data: flexible length, 5, 7
SAME_DIM = {0: [0, 1, 5], 1: [0, 1, 5], 5: [0, 1, 5], 2: [2], 3: [3, 4], 4: [3, 4]}


def _fits(grid):
    return ["flex", "none"] + [k for k, names in MASK_FITS.items() if (None if grid is None else GRID_NAMES[grid]) in names]


def gen_info(rng, producer, adapter, partner=None):
    """an info spec {"time": days|None, "grid": id|None, "units": id|None, "mask": "flex"|"none"|id, "meta": [[k, v]]};
    a consumer (`partner` = the producer's spec) is mostly generated compatible with the producer"""
    friendly = partner is not None and rng.random() < 0.8
    if friendly:
        pg = partner["grid"]
        grid = rng.choice([pg, pg, None] + ([rng.choice(U34)] if pg in U34 else []) + ([7, 8] if pg in (7, 8) else [])
                          + ([12, 13] if pg in (12, 13) else [])
                          + ([14, 15, 14, 15] if pg in (14, 15) else [])
                          + ([9, 10, 11, pg] if pg in NOGRID1 else []))
        if pg is None:
            grid = rng.choices([0, 1, 2, 3, 4, 6], [10, 40, 15, 10, 10, 5])[0]
        pu = partner["units"]
        units = rng.choice([None] + SAME_DIM[pu] * 2) if pu is not None else rng.choice([0, 1, 2, 3, 5])
        if adapter == "sum" and pu is not None and units is not None:
            units = 100 + (3 if units == 4 else units)
        if adapter == "g2v":
            grid = rng.choice([None, 0])
        if adapter == "regrid":
            grid = rng.choice([1, 2, 4, 6, 5])
        fits = _fits(grid)
        pm = partner["mask"]
        mask = "flex"
        r = rng.random()
        if r < 0.35 and adapter != "regrid":
            if pm in fits and (pm != "flex"):
                mask = pm
            elif isinstance(pm, int) and grid in U34 and partner["grid"] in U34:
                # the same physical mask in the consumer's layout (ids 1/3/4 are one mask in three layouts)
                relaid = {1: {1: 1, 2: 3, 3: 4}, 3: {1: 1, 2: 3, 3: 4}, 4: {1: 1, 2: 3, 3: 4}}
                src_layout = partner["grid"]
                if pm in (1, 3, 4) and {1: 1, 2: 3, 3: 4}[src_layout] == pm:
                    mask = relaid[pm][grid]
        elif r < 0.45:
            mask = rng.choice(fits)
    else:
        grid = rng.choices([None, 0, 1, 2, 3, 4, 5, 6, 7, 8, 9, 10, 11, 12, 13, 14, 15], [22, 10, 28, 12, 8, 8, 4, 6, 5, 5, 4, 4, 3, 5, 5, 5, 5])[0]
        if adapter in ("regrid", "g2v") and grid in (14, 15):
            grid = 1   # (reference systems behind regridding adapters: pyproj transformations are outside the model)
        if adapter in ("regrid", "g2v") and grid in NOGRID1:
            grid = 0  # (grid-less arrays of rank 1 behind a regridding / grid-to-value adapter: outside the model)
        units = rng.choices([None, 0, 1, 2, 3, 4, 5], [22, 30, 15, 8, 8, 8, 9])[0]
        fits = _fits(grid)
        mask = rng.choice(fits) if rng.random() < 0.45 else "flex"
    meta = []
    if rng.random() < 0.45:
        meta = [["foo", rng.choice([None, 1, 1, 2, 0])]]   # (0: a set value that is falsy)
        if friendly and partner["meta"] and partner["meta"][0][1] is None and meta[0][1] is None:
            meta = [["foo", 1]]
    if friendly and partner["meta"] and partner["meta"][0][1] is None and not meta and rng.random() < 0.8:
        meta = [["foo", rng.choice([1, 2, 2])]]
    time = rng.choice([None, 0, 0, 1, 2]) if not producer else rng.choice([None, 0, 0])
    if friendly and partner["time"] is None and time is None and rng.random() < 0.8:
        time = rng.choice([0, 1])
    return {"time": time, "grid": grid, "units": units, "mask": mask, "meta": meta}


def gen_case(rng):
    shape = rng.choices(["one", "two_direct", "two_shared", "two_separate"], [45, 20, 15, 20])[0]
    kinds = [None, "scale", "regrid", "g2v", "sum"]
    w = [40, 15, 18, 12, 15]
    if shape in ("one", "two_shared"):
        a = rng.choices(kinds, w)[0]
        if shape == "two_shared" and a in (None, "sum"):
            a = "scale"  # (a shared SumOverTime is a no-branch adapter: rejected by validation, C19)
        branches = [{"adapter": a, "n": 1 if shape == "one" else 2}]
    elif shape == "two_direct":
        branches = [{"adapter": None, "n": 1}, {"adapter": None, "n": 1}]
    else:
        branches = [{"adapter": rng.choices(kinds, w)[0], "n": 1}, {"adapter": rng.choices(kinds, w)[0], "n": 1}]
    out = gen_info(rng, True, None)
    if rng.random() < 0.04:
        out["mask"] = None   # a producer that leaves the mask open: nothing downstream can fill it, no input may end up with it
    if out["grid"] in NOGRID1:
        for b in branches:
            if b["adapter"] in ("regrid", "g2v"):
                b["adapter"] = "scale"
    if out["grid"] in (14, 15):
        for b in branches:
            if b["adapter"] == "regrid":
                b["adapter"] = "scale"   # (reference systems at regridding adapters are outside the modelled metadata algebra)
    bs = []
    for b in branches:
        ins = [gen_info(rng, False, b["adapter"], partner=out) for _ in range(b["n"])]
        bs.append({"adapter": b["adapter"], "inputs": ins})
    if any(b["adapter"] == "sum" for b in bs) and out["units"] == 4:
        out["units"] = 3  # pint cannot reduce degC * s (offset unit): outside the modelled unit algebra
    if any(b["adapter"] == "sum" for b in bs) and out["units"] is None:
        # an unset producer unit is taken from the first requesting consumer: keep degC away from SumOverTime here too
        for b in bs:
            for x in b["inputs"]:
                if x["units"] == 4:
                    x["units"] = 3
    order = [[b, j] for b, br in enumerate(bs) for j in range(len(br["inputs"]))]
    rng.shuffle(order)
    return {"out": out, "branches": bs, "order": order}


# ---------------------------------------------------------------------------------------------
# implementation
# ---------------------------------------------------------------------------------------------
def make_info(spec):
    kw = {k: v for k, v in spec["meta"]}
    m = spec["mask"]
    mask = None if m is None else fm.Mask.FLEX if m == "flex" else fm.Mask.NONE if m == "none" else MASKS[m]
    return fm.Info(time=None if spec["time"] is None else T(spec["time"] * DAY_US),
                   grid=None if spec["grid"] is None else GRIDS[spec["grid"]][1],
                   units=None if spec["units"] is None else unit_obj(spec["units"]),
                   mask=mask, **kw)


def canon_info(info):
    if info is None:
        return None
    meta = sorted([k, v] for k, v in info.meta.items() if k != "units")
    return {"time": us(info.time), "grid": grid_id(info.grid), "units": unit_id(info.meta.get("units")),
            "mask": mask_id(info.mask), "meta": meta}


class Producer(fm.TimeComponent):
    def __init__(self, info):
        super().__init__()
        self._info = info
        self._time = T(0)

    def _next_time(self):
        return self.time + DAY

    def _initialize(self):
        self.outputs.add(name="out", info=self._info)
        self.create_connector()

    def _connect(self, start_time):
        push = {}
        try:
            info = self.outputs["out"].info
            g = info.grid
            if isinstance(g, fm.data.grid_base.Grid):
                push["out"] = np.zeros(g.data_shape)
            else:
                push["out"] = np.zeros(tuple(5 if n == -1 else n for n in g.data_shape))
        except fm.FinamNoDataError:
            pass
        self.try_connect(start_time, push_data=push)

    def _validate(self):
        pass

    def _update(self):
        self._time += DAY

    def _finalize(self):
        pass


class Consumer(fm.TimeComponent):
    def __init__(self, info):
        super().__init__()
        self._info = info
        self._time = T(0)

    def _next_time(self):
        return self.time + DAY

    def _initialize(self):
        self.inputs.add(name="in", info=self._info)
        self.create_connector()

    def _connect(self, start_time):
        self.try_connect(start_time)

    def _validate(self):
        pass

    def _update(self):
        self._time += DAY

    def _finalize(self):
        pass


def make_adapter(kind):
    return {"scale": lambda: ad.Scale(1.0), "regrid": lambda: ad.RegridNearest(),
            "g2v": lambda: ad.GridToValue(np.mean), "sum": lambda: ad.SumOverTime()}[kind]()


def run_impl(case):
    prod = Producer(make_info(case["out"])).with_name("P")
    cons, adapters = {}, []
    for b, br in enumerate(case["branches"]):
        for j, spec in enumerate(br["inputs"]):
            cons[(b, j)] = Consumer(make_info(spec)).with_name(f"C{b}_{j}")
    listed = [prod] + [cons[tuple(k)] for k in case["order"]]
    comp = fm.Composition(listed, print_log=False, log_level=logging.CRITICAL, slot_memory_location=None)
    for b, br in enumerate(case["branches"]):
        node = prod.outputs["out"]
        a = None
        if br["adapter"]:
            a = make_adapter(br["adapter"])
            node = node >> a
        adapters.append(a)
        for j in range(len(br["inputs"])):
            node >> cons[(b, j)].inputs["in"]
    res = {"error": None, "msg": None}
    try:
        limited(60, comp.connect, T(0))
    except Exception as e:  # noqa
        res["error"] = err_class(e)
        res["msg"] = f"{type(e).__name__}: {str(e)[:200]}"
        return res
    res["out"] = canon_info(prod.outputs["out"].info)
    res["branches"] = []
    for b, br in enumerate(case["branches"]):
        a = adapters[b]
        res["branches"].append({
            "chain": [] if a is None else [{"in": canon_info(a.in_info), "out": canon_info(a.info)}],
            "inputs": [{"info": canon_info(cons[(b, j)].inputs["in"].info),
                        "delivered": canon_info(cons[(b, j)].inputs["in"].source.info)}
                       for j in range(len(br["inputs"]))]})
    return res


def model_request(case):
    def enc(spec):
        return {"time": None if spec["time"] is None else spec["time"] * DAY_US, "grid": spec["grid"], "units": spec["units"],
                "mask": spec["mask"], "meta": spec["meta"]}

    kind = {None: [], "scale": ["identity"], "regrid": ["regrid"], "g2v": ["g2v"], "sum": ["sum"]}
    return {"op": "c07", "rel": relations(), "static": False, "out": enc(case["out"]),
            "branches": [{"chain": kind[b["adapter"]], "inputs": [enc(i) for i in b["inputs"]]} for b in case["branches"]],
            "order": case["order"]}


def canon_model_info(i):
    if i is None:
        return None
    return {"time": i["time"], "grid": i["grid"], "units": i["units"], "mask": i["mask"],
            "meta": sorted([k, v] for k, v in i["meta"])}


def compare(case, impl, model):
    m_err = model.get("err")
    if (impl["error"] or None) != (m_err or None):
        return {"impl_error": impl["error"], "impl_msg": impl["msg"], "model_error": m_err}
    if impl["error"]:
        return None
    mo = model["ok"]
    if impl["out"] != canon_model_info(mo["out"]):
        return {"where": "output.info", "impl": impl["out"], "model": canon_model_info(mo["out"])}
    for b, (ib, mb) in enumerate(zip(impl["branches"], mo["branches"])):
        for j, (ii, mi) in enumerate(zip(ib["inputs"], mb["inputs"])):
            if ii["info"] != canon_model_info(mi["info"]):
                return {"where": f"input.info[{b},{j}]", "impl": ii["info"], "model": canon_model_info(mi["info"])}
        for ic, mc in zip(ib["chain"], mb["chain"]):
            for key in ("in", "out"):
                if ic[key] != canon_model_info(mc[key]):
                    return {"where": f"adapter.{key}_info[{b}]", "impl": ic[key], "model": canon_model_info(mc[key])}
    return None


# ---------------------------------------------------------------------------------------------
# oracle (location based, independent of compatible_with / masks_equal / the Lean model)
# ---------------------------------------------------------------------------------------------
def locations(gid):
    g = GRIDS[gid][1]
    if isinstance(g, fm.NoGrid):
        return ("nogrid", g.dim, tuple(int(x) for x in g.data_shape))
    pts = np.asarray(g.data_points)
    if getattr(g, "crs", None) is not None:
        # positions on the globe (longitude, latitude), whatever axis order the reference system writes them in
        from pyproj import Transformer
        tr = Transformer.from_crs(g.crs, "OGC:CRS84")
        pts = np.asarray(list(tr.itransform(pts[:, :2].tolist())))
        return ("crs",) + tuple(sorted(tuple(np.round(p, 7)) for p in pts))
    return tuple(sorted(tuple(np.round(p, 9)) for p in pts))


def same_locations(a, b):
    return locations(a) == locations(b)


def masked_locations(mid, gid):
    """the set of masked data locations of an explicit mask living on a grid (None: raw array)"""
    arr = MASKS[mid]
    if gid is None or isinstance(GRIDS[gid][1], fm.NoGrid):
        return ("raw", arr.shape, tuple(arr.ravel().tolist()))
    g = GRIDS[gid][1]
    pts = np.asarray(g.data_points)
    flat = arr.ravel(order=g.order)
    if len(flat) != len(pts):
        return ("raw", arr.shape, tuple(arr.ravel().tolist()))
    return tuple(sorted(tuple(np.round(p, 9)) for p in pts[flat]))


def mask_requirement_met(cm, cg, pm, pg):
    """consumer requirement cm (on grid cg) against delivered mask pm (on grid pg)"""
    if cm == "flex":
        return pm is not None
    if cm == "none":
        return pm == "none"
    if pm in ("flex", "none", None):
        return False
    if cg is None or pg is None:  # nothing to relate the layouts: the arrays themselves must agree
        return MASKS[cm].shape == MASKS[pm].shape and bool(np.array_equal(MASKS[cm], MASKS[pm]))
    return masked_locations(cm, cg) == masked_locations(pm, pg)


def dims(uid):
    return unit_obj(uid).dimensionality


def oracle(case, impl):
    ok = impl["error"] is None
    out_decl = case["out"]
    if ok:
        for b, br in enumerate(case["branches"]):
            for j, decl in enumerate(br["inputs"]):
                got = impl["branches"][b]["inputs"][j]
                fin, dlv = got["info"], got["delivered"]
                where = f"input[{b},{j}]"
                unset = [k for k in ("time", "grid", "units", "mask") if fin[k] is None] + \
                        [k for k, v in fin["meta"] if v is None]
                if unset:
                    return ("after connect no field of an input's metadata is unset", {"where": where, "unset": unset, "info": fin})
                if not isinstance(fin["grid"], int) or not isinstance(dlv["grid"], int) or not same_locations(fin["grid"], dlv["grid"]):
                    return ("the input's grid must describe the same data locations as the delivered grid",
                            {"where": where, "input_grid": fin["grid"], "delivered_grid": dlv["grid"]})
                if dlv["units"] is None or dims(fin["units"]) != dims(dlv["units"]):
                    return ("the input's units must be convertible from the delivered units",
                            {"where": where, "input_units": fin["units"], "delivered_units": dlv["units"]})
                if not mask_requirement_met(decl["mask"], fin["grid"], dlv["mask"], dlv["grid"]):
                    return ("the input's mask requirement must be satisfied by the delivered mask",
                            {"where": where, "required": decl["mask"], "delivered": dlv["mask"]})
                # fields left unset on the consumer carry the delivered values; set fields are kept
                for k in ("time", "grid", "units"):
                    want = dlv[k] if decl[k] is None else (decl[k] * DAY_US if k == "time" else decl[k])
                    if fin[k] != want:
                        return ("fields unset on the consumer carry the producer's values, set fields are kept",
                                {"where": where, "field": k, "got": fin[k], "expected": want})
                dmeta = dict((k, v) for k, v in dlv["meta"])
                for k, v in decl["meta"]:
                    want = dmeta.get(k) if v is None else v
                    if dict((a, b2) for a, b2 in fin["meta"]).get(k) != want and not (v is None and k not in dmeta):
                        return ("fields unset on the consumer carry the producer's values, set fields are kept",
                                {"where": where, "field": k, "got": fin["meta"], "expected": want})
        # the mask a producer declares is never changed by the exchange (filling an open grid included)
        if out_decl["mask"] is not None and impl["out"]["mask"] != out_decl["mask"]:
            return ("fields set on the producer are kept: the producer's mask is the mask it declared",
                    {"declared": out_decl["mask"], "after_connect": impl["out"]["mask"], "grid_after_connect": impl["out"]["grid"]})
        # fields unset on the producer carry the first requesting consumer's values (identity branches only)
        first = case["order"][0]
        fb = case["branches"][first[0]]
        if fb["adapter"] in (None, "scale"):
            fdecl = fb["inputs"][first[1]]
            for k in ("time", "grid", "units"):
                want = (out_decl[k] * DAY_US if k == "time" else out_decl[k]) if out_decl[k] is not None else \
                    (fdecl[k] * DAY_US if (k == "time" and fdecl[k] is not None) else fdecl[k])
                if impl["out"][k] != want:
                    return ("fields unset on the producer carry the first consumer's values, set fields are kept",
                            {"field": k, "got": impl["out"][k], "expected": want})
            fmeta = dict((k, v) for k, v in fdecl["meta"])
            for k, v in out_decl["meta"]:
                want = v if v is not None else fmeta.get(k)
                if dict((a, b2) for a, b2 in impl["out"]["meta"]).get(k) != want:
                    return ("fields unset on the producer carry the first consumer's values, set fields are kept",
                            {"field": k, "got": impl["out"]["meta"], "expected": want})
    # conflicts on direct / identity links must be rejected with a metadata error
    conflict = None
    og = out_decl["grid"]
    if og is None:
        # an unset producer grid is taken from the first requesting consumer (when that link does not rewrite it)
        first = case["order"][0]
        fb = case["branches"][first[0]]
        og = fb["inputs"][first[1]]["grid"] if fb["adapter"] in (None, "scale") else "unknown"
    for b, j in case["order"]:
        br = case["branches"][b]
        if br["adapter"] not in (None, "scale"):
            break  # a rewriting adapter exchanges first: its outcome is not judged by this rule
        for decl in [br["inputs"][j]]:
            if decl["grid"] is not None and out_decl["grid"] is not None and not same_locations(decl["grid"], out_decl["grid"]):
                conflict = ("grid", b, j)
            if decl["units"] is not None and out_decl["units"] is not None and dims(decl["units"]) != dims(out_decl["units"]):
                conflict = ("units", b, j)
            if decl["mask"] != "flex" and og != "unknown" and og is not None:
                cg = decl["grid"] if decl["grid"] is not None else og
                if same_locations(cg, og) and not mask_requirement_met(decl["mask"], cg, out_decl["mask"], og):
                    conflict = ("mask", b, j)
    if conflict and impl["error"] != "FinamMetaDataError":
        return ("incompatible ends must be rejected with FinamMetaDataError",
                {"conflict": list(conflict), "error": impl["error"], "msg": impl["msg"]})
    return None


# ---------------------------------------------------------------------------------------------
def check_cases(cases, res):
    models = common.lean_batch([model_request(c) for c in cases])
    for c, m in zip(cases, models):
        impl = run_impl(c)
        n_in = sum(len(b["inputs"]) for b in c["branches"])
        kinds = sorted(str(b["adapter"]) for b in c["branches"])
        unset = sum(1 for k in ("time", "grid", "units") if c["out"][k] is None)
        res.case(c, impl["error"] is None and (unset > 0 or n_in > 1 or kinds != ["None"]))
        res.count("outcome", impl["error"] or "connected")
        res.count("consumers", n_in)
        for k in kinds:
            res.count("adapters", k)
        res.count("producer_unset_fields", unset)
        for b in c["branches"]:
            for i in b["inputs"]:
                res.count("consumer_mask", "explicit" if isinstance(i["mask"], int) else i["mask"])
                res.count("consumer_unset_fields", sum(1 for k in ("time", "grid", "units") if i[k] is None))
        d = compare(c, impl, m)
        if d:
            res.diverge("info/exchange", c, d, m if "err" in m else None)
        o = oracle(c, impl)
        if o:
            res.fail(c, o[0], o[1])


def corpus():
    I = lambda time=0, grid=1, units=0, mask="flex", meta=None: {"time": time, "grid": grid, "units": units, "mask": mask, "meta": meta or []}  # noqa
    one = lambda out, inp, a=None: {"out": out, "branches": [{"adapter": a, "inputs": [inp]}], "order": [[0, 0]]}  # noqa
    return [
        one(I(), I()),
        one(I(units=0), I(units=1)),                       # m -> km
        one(I(units=0), I(units=2)),                       # m -> s: rejected
        one(I(grid=None, time=None, units=None), I(time=1, grid=2, units=1)),   # everything from the target
        one(I(), I(time=None, grid=None, units=None)),     # everything from the source
        one(I(grid=None), I(grid=None)),                   # nobody knows the grid
        one(I(grid=1), I(grid=2)),                         # reversed layout: compatible
        one(I(grid=1), I(grid=4)),                         # other extent: rejected
        one(I(mask=1), I(mask=1)), one(I(mask=1), I(mask=2)), one(I(mask=1), I(grid=2, mask=3)),
        one(I(mask="flex"), I(mask="none")), one(I(mask="none"), I(mask="none")), one(I(mask=1), I(mask="flex")),
        one(I(mask=1), I(grid=None, mask=2)),              # fixed-mask consumer without grid (F9, repaired)
        one(I(meta=[["foo", None]]), I(meta=[["foo", 2]])), one(I(meta=[["foo", None]]), I()),
        one(I(meta=[["foo", 1]]), I(meta=[["foo", 2]])),
        one(I(), I(grid=4), "regrid"), one(I(), I(grid=None), "regrid"), one(I(grid=None), I(grid=4), "regrid"),
        one(I(), I(grid=0), "g2v"), one(I(), I(grid=None), "g2v"), one(I(), I(grid=1), "g2v"),
        one(I(units=0), I(units=100), "sum"), one(I(units=0), I(units=None), "sum"), one(I(units=0), I(units=0), "sum"),
        {"out": I(grid=None), "branches": [{"adapter": None, "inputs": [I(grid=1)]}, {"adapter": None, "inputs": [I(grid=4)]}],
         "order": [[0, 0], [1, 0]]},                       # second target conflicts with the grid taken from the first
        {"out": I(grid=None), "branches": [{"adapter": None, "inputs": [I(grid=1)]}, {"adapter": None, "inputs": [I(grid=2)]}],
         "order": [[1, 0], [0, 0]]},
        {"out": I(units=None), "branches": [{"adapter": "scale", "inputs": [I(units=0), I(units=2)]}], "order": [[0, 1], [0, 0]]},
        {"out": I(), "branches": [{"adapter": "regrid", "inputs": [I(grid=4), I(grid=4)]}], "order": [[0, 0], [0, 1]]},
        {"out": I(mask=1), "branches": [{"adapter": "regrid", "inputs": [I(grid=4), I(grid=4)]}], "order": [[0, 0], [0, 1]]},
    ]


RULE_TEXT = ("random points of the product {set, unset}^(time, grid, units, extra entry) on producer and consumers x grid kinds "
             "(NoGrid, uniform 3x4 in three layouts, 4x5, point data, unstructured) x units (m, km, mm, s, K, degC, and their "
             "products with s) x masks (flexible, none, four explicit arrays in matching layouts) x {one consumer, two direct, "
             "two behind a shared adapter, two behind separate adapters} x {no adapter, Scale, RegridNearest, GridToValue, "
             "SumOverTime} x random component order; consumers are biased towards the producer's grid and mask; "
             "non-trivial = a successful exchange that filled a producer field, had two consumers or an adapter")


# ---------------------------------------------------------------------------------------------
# relays that build the metadata of an output from the metadata of an input (transfer rules of the connect helper)
# ---------------------------------------------------------------------------------------------
class Relay(fm.TimeComponent):
    def __init__(self, in_kw, rules):
        super().__init__()
        self._in_kw, self._rules, self._time = in_kw, rules, T(0)

    def _next_time(self):
        return self.time + DAY

    def _initialize(self):
        self.inputs.add(name="in", **self._in_kw)
        self.outputs.add(name="out")
        self.create_connector(out_info_rules={"out": self._rules})

    def _connect(self, start_time):
        self.try_connect(start_time, push_data={"out": np.zeros(())})

    def _validate(self):
        pass

    def _update(self):
        self._time += DAY

    def _finalize(self):
        pass


def gen_relay(rng):
    """Source(units u0, extra entry) >> Relay(in: some fields unset; out: everything from `in`, then units / the
    extra entry replaced by rules) >> Sink"""
    u0, u1 = rng.choice([("m", "km"), ("m", "s"), ("K", "m"), ("mm", "s")])
    return {"relay": True, "u0": u0, "u1": u1, "in_units": rng.choice([None, u0]),
            "in_grid": rng.choice([None, "nogrid"]), "foo": rng.choice([None, 1]), "foo_out": rng.choice([None, 2]),
            "replace_units": rng.random() < 0.8, "order": rng.sample([0, 1, 2], 3)}


def run_relay(case):
    rules = [fm.tools.FromInput("in")]
    if case["replace_units"]:
        rules.append(fm.tools.FromValue("units", case["u1"]))
    if case["foo_out"] is not None:
        rules.append(fm.tools.FromValue("foo", case["foo_out"]))
    src_kw = {"time": T(0), "grid": fm.NoGrid(), "units": case["u0"]}
    if case["foo"] is not None:
        src_kw["foo"] = case["foo"]
    src = Producer(fm.Info(**src_kw))
    in_kw = {"time": T(0), "grid": None if case["in_grid"] is None else fm.NoGrid(), "units": case["in_units"]}
    rel = Relay(in_kw, rules)
    out_units = case["u1"] if case["replace_units"] else case["u0"]
    snk = Consumer(fm.Info(time=T(0), grid=fm.NoGrid(), units=out_units))
    comps = [src, rel, snk]
    comp = fm.Composition([comps[i] for i in case["order"]], print_log=False, log_level=logging.CRITICAL)
    src.outputs["out"] >> rel.inputs["in"]
    rel.outputs["out"] >> snk.inputs["in"]
    try:
        limited(60, comp.connect, T(0))
    except Exception as e:  # noqa
        return {"error": err_class(e), "msg": str(e)[:200]}
    link = lambda o, i: {"delivered": canon_info(o.info), "input": canon_info(i.info)}  # noqa
    return {"error": None, "links": [link(src.outputs["out"], rel.inputs["in"]), link(rel.outputs["out"], snk.inputs["in"])]}


def oracle_relay(case, impl):
    if impl["error"] is not None:
        return ("a relay whose output metadata are derived from its input by transfer rules connects",
                {"error": impl["error"], "msg": impl.get("msg")})
    for k, l in enumerate(impl["links"]):
        d, i = l["delivered"], l["input"]
        unset = [f for f in ("time", "grid", "units") if i[f] is None]
        if unset:
            return ("the receiving input's metadata has no unset field", {"link": k, "unset": unset})
        if not (isinstance(i["units"], int) and isinstance(d["units"], int) and dims(i["units"]) == dims(d["units"])):
            return ("the input's units are dimensionally convertible from the delivered units",
                    {"link": k, "input_units": i["units"], "delivered_units": d["units"]})
        if dict(map(tuple, i["meta"])) != dict(map(tuple, d["meta"])) and k == 0:
            return ("fields left unset on the input carry the source's values (and nothing else changes them)",
                    {"link": k, "input_meta": i["meta"], "delivered_meta": d["meta"]})
    return None


def run(ctx, res):
    res.rule = RULE_TEXT
    res.assumptions = ["non-static outputs; Info.mask is never None on a slot (FLEX / NONE / array)",
                       "grid compatibility, unit compatibility and mask equality of the catalogue objects are taken from the "
                       "implementation as parameters of the model (their laws belong to C15, C17, C18); the oracle judges "
                       "them independently by data locations / pint dimensionality / masked locations"]
    cases = corpus() + [gen_case(ctx.rng) for _ in range(ctx.n(2500, 40000))]
    check_cases(cases, res)
    # relays with transfer rules: judged by the oracle only (the connect helper's rule system is modelled in C06)
    for _ in range(ctx.n(40, 400)):
        c = gen_relay(ctx.rng)
        impl = run_relay(c)
        res.case(c, True)
        res.count("relay_cases")
        o = oracle_relay(c, impl)
        if o:
            res.fail(c, o[0], o[1])
    run_unitnames(ctx, res, ctx.n(60, 600))


def run_unitnames(ctx, res, n):
    """units whose short notations coincide, several links in one process (engines/unitnames.py)"""
    import logging
    from . import unitnames
    prev = logging.root.manager.disable
    logging.disable(logging.CRITICAL)
    try:
        for _ in range(n):
            c = unitnames.gen(ctx.rng)
            res.case(c, True)
            res.count("part", "unit-names")
            o = unitnames.oracle(c, unitnames.run(c))
            if o:
                res.fail(c, o[0], o[1])
                return True
    finally:
        logging.disable(prev)
    return False


def search(ctx, res, divergences, broken):
    if run_unitnames(ctx, res, 150):
        return
    cases = [d["case"] for d in divergences if d.get("case")] + corpus() + [gen_case(ctx.rng) for _ in range(ctx.n(4000, 40000))]
    for c in cases:
        impl = run_impl(c)
        res.case(c, True)
        o = oracle(c, impl)
        if o:
            res.fail(c, o[0], o[1])
            return


def _fails(case):
    try:
        if case.get("relay"):
            return oracle_relay(case, run_relay(case))
        return oracle(case, run_impl(case))
    except Exception:  # noqa
        return None


def shrink(ctx, f):
    """drop consumers / adapters, reset fields to plain values while the oracle keeps failing"""
    import copy

    case = f["case"]
    if case.get("part") == "unitnames":
        return f
    if case.get("relay"):
        return f

    def variants(c):
        n_in = sum(len(b["inputs"]) for b in c["branches"])
        if n_in > 1:
            for b, br in enumerate(c["branches"]):
                for j in range(len(br["inputs"])):
                    v = copy.deepcopy(c)
                    del v["branches"][b]["inputs"][j]
                    v["branches"] = [x for x in v["branches"] if x["inputs"]]
                    v["order"] = [[bb, jj] for bb, x in enumerate(v["branches"]) for jj in range(len(x["inputs"]))]
                    yield v
        for b, br in enumerate(c["branches"]):
            if br["adapter"] is not None:
                v = copy.deepcopy(c)
                v["branches"][b]["adapter"] = None
                yield v
        plain = {"time": 0, "grid": 1, "units": 0, "mask": "flex", "meta": []}
        for side in [("out", None, None)] + [("in", b, j) for b, br in enumerate(c["branches"]) for j in range(len(br["inputs"]))]:
            for k in ("meta", "time", "mask", "units", "grid"):
                v = copy.deepcopy(c)
                tgt = v["out"] if side[0] == "out" else v["branches"][side[1]]["inputs"][side[2]]
                if tgt[k] != plain[k]:
                    tgt[k] = plain[k]
                    yield v

    changed = True
    while changed:
        changed = False
        for v in variants(case):
            o = _fails(v)
            if o:
                case = v
                f = {"case": v, "required": o[0], "observed": o[1], "signature": f.get("signature")}
                changed = True
                break
    return f


def replay(ctx, rp):
    case = rp.get("input") or (rp.get("diverging_case") or {}).get("case")
    if case.get("part") == "unitnames":
        from . import unitnames
        o = unitnames.oracle(case, unitnames.run(case))
        return {"fails": bool(o), "oracle": o}
    if case.get("relay"):
        impl = run_relay(case)
        o = oracle_relay(case, impl)
        return {"fails": bool(o), "oracle": o, "impl": impl}
    impl = run_impl(case)
    o = oracle(case, impl)
    m = common.lean_batch([model_request(case)])[0]
    return {"fails": bool(o), "oracle": o, "impl": impl, "model": m, "correspondence": compare(case, impl, m),
            "legend": {"grids": GRID_NAMES, "units": UNITS, "units_100_plus_k": "UNITS[k] * s"}}
