"""C01 — the scheduler never updates a component before its input data exists.

Correspondence: random compositions (DAGs of time-stepped and pull-based components, every adapter
kind in every ordering, start offsets, varying steps, shuffled listing order) run through the real
`Composition.run` and through `Finam.runLoop` of the Lean model; observables: update sequence,
final times, outcome class.  Oracle: no pull at the announced time inside an update fails with a
time-range/no-data error, and no request that reaches a range check lies beyond the newest
publication (no extrapolation)."""
import re

from . import sched_common as sc
from . import announce
from .. import common
from ..schedlib import CACHE, layout, model_request, run_impl

MODULES = sc.MODULES + ["Net", "NetC", "Output", "OutputLemmas", "Props.C05Run", "Props.C03Run", "Props.C01Run", "Props.C01RunC", "Props.C01Dpush"]
GEN_OBLIGATIONS = sc.GEN_OBLIGATIONS
THEOREM_DEPS = ["C01Run", "C01RunC", "C01Dpush"]

SIG_F15 = "integration-zero-length-repeat"
SIG_F16 = "pull-fanout-eviction"
SIG_F19 = "dpull-repeated-pull"


def classify(spec, impl):
    """structural signatures of the recorded known findings"""
    msg = impl.get("msg") or ""
    kinds = {a[0] for l in spec["links"] for a in l["ads"]}
    # what can turn increasing consumer requests into repeated ones at an integration adapter: delay adapters,
    # or a pull-based component that is pulled several times for the same time
    repeats = kinds & {"dpush", "dpull", "dfix"} or any(
        c["kind"] == "pull" and sum(1 for l in spec["links"] if l["src"] == i) > 1 for i, c in enumerate(spec["comps"]))
    if "zero-length time duration" in msg and "avg" in kinds:
        return SIG_F15
    if impl["error"] == "other" and "NoneType" in msg and "sum" in kinds and repeats:
        return SIG_F15
    if impl["error"] == "FinamTimeError":
        # a DelayToPull adapter feeding a pull-based component that is pulled more than once per consumer update:
        # the first pull advances the adapter's request history, the second one asks for a later time than the
        # driver assumed when scheduling
        def pulled_repeatedly(i, depth=0):
            """pull-based component i is pulled more than once per consumer update: it has several readers, or its only
            reader is a pull-based component that is"""
            outs = [m for m in spec["links"] if m["src"] == i]
            if len(outs) > 1:
                return True
            return depth < len(spec["comps"]) and any(spec["comps"][m["dst"]]["kind"] == "pull" and pulled_repeatedly(m["dst"], depth + 1)
                                                      for m in outs)

        for l in spec["links"]:
            if any(a[0] == "dpull" for a in l["ads"]) and spec["comps"][l["dst"]]["kind"] == "pull" and pulled_repeatedly(l["dst"]):
                return SIG_F19
    below = "in the past" in msg
    m = re.search(r"Requested time (\S+ \S+) out of range \[(\S+ \S+), (\S+ \S+)\]", msg)
    if m:
        below = m.group(1) < m.group(2)   # ISO time stamps compare lexicographically: asked for something already evicted
    if impl["error"] == "FinamTimeError" and below:
        # a pull-based component whose outputs feed more than one consumer path: history needed by the slower path was
        # evicted (requests *beyond* the newest publication are never this finding)
        for i, c in enumerate(spec["comps"]):
            if c["kind"] == "pull" and sum(1 for l in spec["links"] if l["src"] == i) > 1:
                return SIG_F16
    return None


def oracle(spec, impl):
    f = sc.oracle_c01(spec, impl)
    if f:
        return (f[0], f[1], classify(spec, impl))
    if impl["error"] == "other" and impl["phase"] == "run":
        return ("an update of a valid acyclic composition raises nothing", {"error": impl.get("msg")}, classify(spec, impl))
    return None


def gen(ctx):
    r = ctx.rng.random()
    if r < 0.2:
        from . import c20
        return c20.gen_pull(ctx.rng)   # producers -> pull-based component(s) -> consumer, two outputs, diamonds, delayed paths
    if r < 0.3:
        return sc.gen_mixed_delay_chain(ctx.rng)   # DelayToPull / DelayFixed / pass-through adapters mixed on one link, in every order
    if r < 0.5:
        return sc.gen_dag(ctx.rng)
    if r < 0.75:
        return sc.gen_dag(ctx.rng, kinds=["scale", "lin", "prev", "dfix", "dpull", "avg"], max_chain=3)
    return sc.gen_dag(ctx.rng, pull_comps=False, kinds=["dfix", "dpull", "lin", "step", "scale", "next"])


def oracle_ws_dpull(case, impl):
    """C01 through the package's merger: the run completes — no pull inside an update fails with a time-range / no-data error"""
    if impl["error"] in ("FinamTimeError", "FinamNoDataError"):
        return ("a pull at the announced time during an update never fails with a time-range or no-data error (WeightedSum behind a "
                "DelayToPull, read twice per step)", {"error": impl["error"], "msg": impl.get("msg")})
    return None


def corpus():
    return [
        # F2: delay adapter upstream of a push-based adapter must not be counted
        {"comps": [{"kind": "time", "start": 0, "steps": [1]}, {"kind": "time", "start": 0, "steps": [5]}],
         "links": [{"src": 0, "out": 0, "dst": 1, "ads": [["dfix", 3], ["lin"]]}], "order": [0, 1], "end": 20},
        # F1: chained delays add up
        {"comps": [{"kind": "time", "start": 0, "steps": [1]}, {"kind": "time", "start": 0, "steps": [5]}],
         "links": [{"src": 0, "out": 0, "dst": 1, "ads": [["dfix", 3], ["dfix", 2]]}], "order": [1, 0], "end": 20},
        # diamond through pull components (F3)
        {"comps": [{"kind": "time", "start": 0, "steps": [2]}, {"kind": "pull", "nout": 2}, {"kind": "time", "start": 0, "steps": [3]}],
         "links": [{"src": 0, "out": 0, "dst": 1, "ads": []}, {"src": 1, "out": 0, "dst": 2, "ads": []},
                   {"src": 1, "out": 1, "dst": 2, "ads": []}], "order": [2, 1, 0], "end": 12},
    ]


def gen_net(rng):
    """compositions for the network correspondence: time-stepped components, links through Scale / DelayFixed only
    (every request reaches the source output), fan-out, several links between one pair, start offsets"""
    s = sc.gen_dag(rng, kinds=["scale", "dfix", "dfix"], pull_comps=False, statics=False, max_chain=2)
    s["record_retained"] = True
    return s


def gen_netc(rng):
    """like gen_net, with at most one push-based adapter (Linear / Step / Next / Previous) per link: upstream of it only
    Scale, downstream Scale / DelayFixed"""
    s = sc.gen_dag(rng, kinds=["scale", "dfix"], pull_comps=False, statics=False, max_chain=2)
    for l in s["links"]:
        if rng.random() < 0.6:
            up = [["scale"]] if rng.random() < 0.3 else []
            l["ads"] = up + [[rng.choice(["lin", "step", "next", "prev"])]] + l["ads"]
    s["record_retained"] = True
    return s


def check_net(specs, res, request=None):
    """retained history length of every output after every update, and every pull answered: model vs package"""
    from ..schedlib import net_request
    request = request or net_request
    reqs, orders = zip(*[request(s) for s in specs]) if specs else ([], [])
    models = common.lean_batch(list(reqs))
    for s, m, order in zip(specs, models, orders):
        impl = run_impl(s)
        res.case(sc.slim(s), len(impl["updates"]) >= 3)
        res.count("network_cases")
        f = oracle(s, impl)
        if f:
            res.fail(sc.slim(s), f[0], f[1], f[2])
            if f[2] is not None:
                continue
        inv = {i: c for i, c in enumerate(order)}
        m_ups = [[inv[u], lens] for u, lens, _ok in m["updates"]]
        if impl["error"] is None and (m["end"] != "done" or impl["retained"] != m_ups):
            k = next((i for i, (a, b) in enumerate(zip(impl["retained"], m_ups)) if a != b), min(len(impl["retained"]), len(m_ups)))
            res.diverge("net/retained-history", sc.slim(s), {"first_difference": k, "impl": impl["retained"][k:k + 3],
                                                             "model": m_ups[k:k + 3], "model_end": m["end"]}, None)
        elif impl["error"] is None and not all(ok for _u, _l, ok in m["updates"]):
            res.diverge("net/pull-answers", sc.slim(s), {"impl": "all pulls served"}, "model refuses a pull")


def run(ctx, res):
    res.rule = ("random coupling DAGs: 2-5 components (time-stepped with scripted varying steps and start offsets, "
                "pull-based with 1-2 outputs), 1-2 links per consumer with adapter chains of length 0-3 over "
                "{Scale, Linear/Step/Next/Previous/Avg/Sum, DelayFixed, DelayToPull, DelayToPush}, shuffled listing "
                "order, end on or off the step grids; non-trivial = at least 3 updates of at least 2 components; "
                "distinct by canonical hash")
    res.assumptions = ["relativedelta steps are not modelled (timedelta steps only)",
                       "bare NoDependencyAdapter markers are outside the guarantee (the user declares independence)"]
    specs = corpus() + [gen(ctx) for _ in range(ctx.n(300, 6000))]
    sc.run_cases(specs, res, [oracle])
    check_net([gen_net(ctx.rng) for _ in range(ctx.n(120, 2500))], res)
    from ..schedlib import netc_request
    check_net([gen_netc(ctx.rng) for _ in range(ctx.n(120, 2500))], res, request=netc_request)
    # "pull at the announced time": the package's own time-stepped components announce the time they then pull at, with
    # fixed and calendar steps (engines/announce.py)
    for _ in range(ctx.n(60, 800)):
        c = announce.gen(ctx.rng)
        impl = announce.run(c)
        res.case(c, len(impl["log"]) >= 4)
        res.count("part", "announce/" + c["comp"])
        o = announce.oracle(c, impl)
        if o:
            res.fail(c, o[0], o[1])
    run_ws_dpull(ctx, res, ctx.n(30, 400))


def run_ws_dpull(ctx, res, n):
    """the package's merger behind a DelayToPull, read twice per step (engines/c20.py: gen_ws_dpull)"""
    from . import c20
    for _ in range(n):
        c = c20.gen_ws_dpull(ctx.rng)
        c["part"] = "ws_dpull"
        res.case(c, True)
        res.count("part", "weighted-sum-behind-dpull")
        o = oracle_ws_dpull(c, c20.run_ws(c))
        if o:
            res.fail(c, o[0], o[1])
            return True
    return False


def search(ctx, res, divergences, broken):
    if run_ws_dpull(ctx, res, 80):
        return
    for _ in range(300):
        c = announce.gen(ctx.rng)
        res.case(c, True)
        o = announce.oracle(c, announce.run(c))
        if o:
            res.fail(c, o[0], o[1], None)
            return
    specs = [d["case"] for d in divergences if d.get("case")] + [gen(ctx) for _ in range(ctx.n(1500, 20000))]
    for s in specs:
        impl = run_impl(s)
        res.case(sc.slim(s), True)
        f = oracle(s, impl)
        if f and f[2] is None:
            res.fail(sc.slim(s), f[0], f[1], f[2])
            return


def shrink(ctx, f):
    if f["case"].get("part") in ("announce", "ws_dpull"):
        return f
    sig = f.get("signature")

    def still(t):
        impl = run_impl(t, timeout=10)
        o = oracle(t, impl)
        return bool(o) and o[2] == sig

    small = sc.shrink_spec(f["case"], still)
    impl = run_impl(small)
    o = oracle(small, impl)
    return {"case": small, "required": o[0], "observed": o[1], "signature": sig} if o else f


def replay(ctx, rp):
    case = rp.get("input") or (rp.get("diverging_case") or {}).get("case")
    if case.get("part") == "announce":
        impl = announce.run(case)
        o = announce.oracle(case, impl)
        return {"fails": bool(o), "oracle": o, "log": impl["log"]}
    if case.get("part") == "ws_dpull":
        from . import c20
        o = oracle_ws_dpull(case, c20.run_ws(case))
        return {"fails": bool(o), "oracle": o}
    impl = run_impl(case)
    o = oracle(case, impl)
    req, order = model_request(case)
    m = common.lean_batch([req])[0]
    return {"fails": bool(o) and o[2] is None, "oracle": o, "updates": impl["updates"], "error": impl.get("msg"),
            "model": m, "correspondence": sc.correspond(case, impl, m, order)}


def _known(sig_case):
    def f(ctx):
        impl = run_impl(sig_case)
        o = oracle(sig_case, impl)
        return bool(o)
    return f


KNOWN_CASES = {
    SIG_F15: {"comps": [{"kind": "time", "start": 0, "steps": [1]}, {"kind": "time", "start": 0, "steps": [1, 2]},
                        {"kind": "time", "start": 0, "steps": [6]}],
              "links": [{"src": 0, "out": 0, "dst": 1, "ads": [["avg"], ["dpush"]]}, {"src": 0, "out": 0, "dst": 2, "ads": []}],
              "order": [1, 0, 2], "end": 7},
    SIG_F16: {"comps": [{"kind": "time", "start": 0, "steps": [1]}, {"kind": "pull", "nout": 1},
                        {"kind": "time", "start": 0, "steps": [1]}, {"kind": "time", "start": 0, "steps": [5]}],
              "links": [{"src": 0, "out": 0, "dst": 1, "ads": []}, {"src": 1, "out": 0, "dst": 2, "ads": []},
                        {"src": 1, "out": 0, "dst": 3, "ads": []}], "order": [0, 1, 2, 3], "end": 12},
}
KNOWN_CASES[SIG_F19] = {"comps": [{"kind": "time", "start": 0, "steps": [6]}, {"kind": "pull", "nout": 2}, {"kind": "time", "start": 0, "steps": [5]}],
                        "links": [{"src": 0, "out": 0, "dst": 1, "ads": [["next"], ["dpull", 1, 2]]}, {"src": 1, "out": 1, "dst": 2, "ads": []},
                                  {"src": 1, "out": 0, "dst": 2, "ads": []}], "order": [2, 1, 0], "end": 1}
KNOWN_REPRO = {k: _known(v) for k, v in KNOWN_CASES.items()}
