"""C02 — the driver follows least-advanced-first and updates only what is needed.

Same correspondence as C01 (update sequence of the real run vs `Finam.runLoop`).  Oracle on the
implementation trace: every update is of a component with minimal time, or of one reached from such
a component along a chain in which each producer's newest publication is older than what the
consumer actually requests (observed at the element that range-checks the request) in its next
update."""
from . import sched_common as sc
from . import c01
from . import announce
from .. import common
from ..schedlib import CACHE, layout, model_request, run_impl

MODULES = sc.MODULES + ["Props.C04"]
GEN_OBLIGATIONS = sc.GEN_OBLIGATIONS
THEOREM_DEPS = []


def oracle(spec, impl):
    if impl["error"] is not None:
        # failures of pulls are C01's business; here only completed prefixes are judged
        pass
    nin, nout, out_index = layout(spec)
    order = spec.get("order") or list(range(len(spec["comps"])))
    tcs = [i for i, c in enumerate(spec["comps"]) if c["kind"] == "time"]
    ups = sc.split_updates(impl)
    times = {i: spec["comps"][i]["start"] for i in tcs}
    links_of = {i: [li for li, l in enumerate(spec["links"]) if l["dst"] == i] for i in range(len(spec["comps"]))}
    gi_of = lambda l: out_index[(l["src"], l["out"])]

    def lagging(x, reqs, now, depth=0):
        """time components that the requests of consumer x (logged in reqs) find lagging at times `now`"""
        out = set()
        if depth > len(spec["comps"]):
            return out
        for li in links_of[x]:
            l = spec["links"][li]
            eff = sc.link_requirements(spec, li, reqs)
            if eff is None:
                continue
            src_kind = spec["comps"][l["src"]]["kind"]
            if eff == "source":
                ts = [t for tag, t in reqs if tag == ("out", gi_of(l))]
                if not ts:
                    continue
                t_req = max(ts)
                if src_kind == "time":
                    if now[l["src"]] < t_req:
                        out.add(l["src"])
                elif src_kind == "pull":
                    out |= lagging(l["src"], reqs, now, depth + 1)
            else:
                if src_kind == "time" and now[l["src"]] < eff:
                    out.add(l["src"])
        return out

    def full_chain(li):
        l = spec["links"][li]
        return (full_chain(l["via"]) if "via" in l else []) + list(l["ads"])

    for k, (u, t_new, _reqs) in enumerate(ups):
        # the time that reaches the source output is the announced pull time shifted by the link's delay adapters (what the
        # driver checked): stated for links of pass-through and fixed-delay adapters from a time component, one per output
        for li in links_of[u]:
            l = spec["links"][li]
            chain = full_chain(li)
            if spec["comps"][l["src"]]["kind"] != "time" or not all(a[0] in ("scale", "dfix") for a in chain):
                continue
            if any(c["kind"] != "time" for c in spec["comps"]):
                continue     # (a pull-based component passes further requests on to the same output within the update)
            if sum(1 for lj in links_of[u] if gi_of(spec["links"][lj]) == gi_of(l)) != 1:
                continue
            init, exp = spec["comps"][l["src"]]["start"], t_new
            for a in reversed(chain):
                if a[0] == "dfix":
                    exp = min(exp, init) if exp - a[1] < init else exp - a[1]
            got = [t for tag, t in _reqs if tag == ("out", gi_of(l))]
            if got and set(got) != {exp}:
                return ("the time requested from the source output equals the time the driver checks on the link (the pull "
                        "time shifted by the link's delay adapters)",
                        {"update_index": k, "updated": u, "to": t_new, "link": li, "chain": chain, "driver_checks": exp,
                         "requested": got}, None)
        tmin = min(times.values())
        if times[u] != tmin:
            # justification through a lag chain from some least-advanced component
            J = {c for c in tcs if times[c] == tmin}
            frontier = list(J)
            unverifiable = False
            while frontier:
                x = frontier.pop()
                nxt = next((ups[j] for j in range(k, len(ups)) if ups[j][0] == x), None)
                if nxt is None:
                    unverifiable = True
                    continue
                for y in lagging(x, nxt[2], times):
                    if y not in J:
                        J.add(y)
                        frontier.append(y)
            if u not in J and not unverifiable:
                return ("every update is of a least-advanced component or of one upstream of it along a chain of "
                        "lagging dependencies (as actually requested)",
                        {"update_index": k, "updated": u, "to": t_new, "times_before": dict(times),
                         "justified_set": sorted(J)}, None)
        times[u] = t_new
    return None


def gen(ctx):
    r = ctx.rng.random()
    if r < 0.12:
        return sc.gen_mixed_delay_chain(ctx.rng)
    if r < 0.4:
        return sc.gen_dag(ctx.rng, pull_comps=True)
    if r < 0.7:
        return sc.gen_dag(ctx.rng, pull_comps=False, kinds=["dfix", "dfix", "dpull", "scale", "lin", "prev"], max_chain=3)
    if r < 0.78:
        # one DelayFixed object serving two consumers with different steps
        a, b = ctx.rng.sample([1, 2, 3, 4, 5, 6], 2)
        return sc.normalise({"comps": [{"kind": "time", "start": 0, "steps": [ctx.rng.choice([1, 1, 2])]},
                                       {"kind": "time", "start": 0, "steps": [a]}, {"kind": "time", "start": 0, "steps": [b]}],
                             "links": [{"src": 0, "out": 0, "dst": 1, "ads": ctx.rng.choice([[["dfix", ctx.rng.randint(1, 4)]], [["scale"], ["dfix", ctx.rng.randint(1, 4)]]])},
                                       {"src": 0, "out": 0, "dst": 2, "ads": ctx.rng.choice([[], [], [["scale"]]]), "via": 0}],
                             "order": ctx.rng.sample([0, 1, 2], 3), "end": ctx.rng.randint(12, 30)})
    s = sc.gen_dag(ctx.rng, pull_comps=False, kinds=["dfix", "scale"], max_chain=3)
    if ctx.rng.random() < 0.7:
        # one DelayFixed / Scale object serving two consumers (their requests interleave on the shared adapter)
        s = sc.normalise(sc.add_branching_adapter(ctx.rng, s))
    return s


def corpus():
    return [
        {"comps": [{"kind": "time", "start": 0, "steps": [1]}, {"kind": "time", "start": 0, "steps": [5]}],
         "links": [{"src": 0, "out": 0, "dst": 1, "ads": [["dfix", 3], ["dfix", 2]]}], "order": [1, 0], "end": 20},
        {"comps": [{"kind": "time", "start": 0, "steps": [2]}, {"kind": "time", "start": 0, "steps": [3]}, {"kind": "time", "start": 0, "steps": [7]}],
         "links": [{"src": 0, "out": 0, "dst": 1, "ads": [["scale"], ["dpull", 1, 1], ["dfix", 1]]},
                   {"src": 1, "out": 0, "dst": 2, "ads": [["lin"], ["dfix", 4]]}], "order": [2, 1, 0], "end": 25},
    ]


def run(ctx, res):
    res.rule = ("random coupling DAGs as for C01 with emphasis on links carrying several delay adapters "
                "(DelayFixed/DelayToPull, mixed with pass-through and push-based adapters), shuffled listing "
                "orders; non-trivial = at least 3 updates of at least 2 components; distinct by canonical hash")
    res.assumptions = ["ties in simulation time: any of the tied components counts as 'furthest back' for the oracle; "
                       "the exact tie-break (first in listing order) is checked by the correspondence with the model"]
    specs = corpus() + [gen(ctx) for _ in range(ctx.n(300, 6000))]
    sc.run_cases(specs, res, [oracle], exclude=c01_known)
    # the contract the model assumes of a component (announced time = requested time = new time), on the package's own
    # time-stepped components with fixed and calendar steps
    res.assumptions.append("model assumption validated on CallbackComponent, DebugConsumer, CsvWriter, TimeTrigger, "
                           "CallbackGenerator: the announced next time is the time pulled at and moved to (timedelta and "
                           "relativedelta steps, month-end and leap-day starts)")
    for _ in range(ctx.n(120, 1500)):
        c = announce.gen(ctx.rng)
        impl = announce.run(c)
        res.case(c, len(impl["log"]) >= 4)
        res.count("part", "announce/" + c["comp"])
        res.count("announce_step", c["step"][0])
        o = announce.oracle(c, impl)
        if o:
            res.fail(c, o[0], o[1])


def c01_known(spec, impl):
    """cases that run into a recorded C01 finding are classified there, not here"""
    f = c01.oracle(spec, impl)
    if f and f[2] is not None:
        return "C01:" + f[2]
    return None


def search(ctx, res, divergences, broken):
    specs = [d["case"] for d in divergences if d.get("case")] + [gen(ctx) for _ in range(ctx.n(1500, 20000))]
    for _ in range(400):
        c = announce.gen(ctx.rng)
        o = announce.oracle(c, announce.run(c))
        res.case(c, True)
        if o:
            res.fail(c, o[0], o[1])
            return
    for s in specs:
        impl = run_impl(s)
        res.case(sc.slim(s), True)
        f = oracle(s, impl)
        if f:
            res.fail(sc.slim(s), f[0], f[1], None)
            return


def shrink(ctx, f):
    if f["case"].get("part") == "announce":
        return f

    def still(t):
        impl = run_impl(t, timeout=10)
        return bool(oracle(t, impl))

    small = sc.shrink_spec(f["case"], still)
    impl = run_impl(small)
    o = oracle(small, impl)
    return {"case": small, "required": o[0], "observed": o[1], "signature": None} if o else f


def replay(ctx, rp):
    case = rp.get("input") or (rp.get("diverging_case") or {}).get("case")
    if case.get("part") == "announce":
        impl = announce.run(case)
        o = announce.oracle(case, impl)
        return {"fails": bool(o), "oracle": o, "log": impl["log"]}
    impl = run_impl(case)
    o = oracle(case, impl)
    req, order = model_request(case)
    m = common.lean_batch([req])[0]
    return {"fails": bool(o), "oracle": o, "updates": impl["updates"], "error": impl.get("msg"),
            "model_updates": m["updates"], "correspondence": sc.correspond(case, impl, m, order)}
