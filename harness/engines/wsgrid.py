"""C20 on gridded fields: `WeightedSum(inputs, grid=G)` where `G` names the producers' grid in another layout (an axis
running the other way, reversed axes order) or the same one.  A consumer on its own layout reads the merger's output: the
value it finds at every *location* is the sum of value times weight of the producers' fields at that location, for the
requested time.  Oracle only (real components, a few steps)."""
import datetime as dt

import numpy as np

import finam as fm

from ..fmutil import limited

T0 = dt.datetime(2000, 1, 1)
DAY = dt.timedelta(days=1)
LAYOUTS = [{}, {"axes_increase": [True, False]}, {"axes_increase": [False, True]}, {"axes_reversed": True},
           {"axes_reversed": True, "axes_increase": [False, True]}]


def gen(rng):
    return {"part": "wsgrid", "n": rng.randint(1, 2), "prod_layout": rng.randrange(len(LAYOUTS)),
            "ws_layout": rng.choice([None, None] + list(range(len(LAYOUTS)))), "cons_layout": rng.randrange(len(LAYOUTS)),
            "weights": [rng.choice([1.0, 0.5, 2.0]) for _ in range(2)], "days": rng.choice([2, 3]), "order_flip": rng.random() < 0.5}


def grid(k):
    return fm.UniformGrid((4, 3), **LAYOUTS[k])


def located(g, data):
    """{(x, y) of the cell centre: value} of a field given in the layout of grid g"""
    pts = np.asarray(g.data_points, dtype=float)
    vals = np.asarray(data, dtype=float).reshape(-1, order=g.order)
    return {(round(float(p[0]), 6), round(float(p[1]), 6)): float(v) for p, v in zip(pts, vals)}


def field(g, i, day):
    """a non-symmetric field defined by *location*: value = 10 x + y + 100 i + day, written in the layout of g"""
    pts = np.asarray(g.data_points, dtype=float)
    vals = 10.0 * pts[:, 0] + pts[:, 1] + 100.0 * i + day
    return vals.reshape(g.data_shape, order=g.order)


def run(case):
    got = []
    try:
        gp, gc = grid(case["prod_layout"]), grid(case["cons_layout"])
        prods, weights = [], []
        for i in range(case["n"]):
            prods.append(fm.components.CallbackGenerator(
                {"Out": (lambda t, i=i: field(gp, i, (t - T0).days), fm.Info(time=None, grid=gp, units="m"))}, start=T0, step=DAY))
            weights.append(fm.components.CallbackGenerator(
                {"Out": (lambda t, i=i: np.full(gp.data_shape, case["weights"][i]), fm.Info(time=None, grid=gp, units=""))}, start=T0, step=DAY))
        ws = fm.components.WeightedSum(inputs=[f"in{i}" for i in range(case["n"])],
                                       grid=None if case["ws_layout"] is None else grid(case["ws_layout"]))
        sink = fm.components.DebugConsumer({"In": fm.Info(time=None, grid=gc, units="m")}, start=T0, step=DAY,
                                           callbacks={"In": lambda n, d, t: got.append(((t - T0).days, located(gc, np.asarray(fm.data.get_magnitude(fm.data.strip_time(d, gc))))))})
        comps = prods + weights + [ws, sink]
        comp = fm.Composition(comps[::-1] if case["order_flip"] else comps)
        for i in range(case["n"]):
            prods[i].outputs["Out"] >> ws.inputs[f"in{i}"]
            weights[i].outputs["Out"] >> ws.inputs[f"in{i}_weight"]
        ws.outputs["WeightedSum"] >> sink.inputs["In"]
        limited(90, comp.run, end_time=T0 + case["days"] * DAY)
        return {"series": got}
    except Exception as e:  # noqa
        return {"err": type(e).__name__, "msg": str(e)[:200]}


def oracle(case, impl):
    if "err" in impl:
        return ("the weighted-sum merger serves compatible grids in any layout", {"error": impl["err"], "msg": impl["msg"]})
    if len(impl["series"]) < 2:
        return ("the consumer behind the merger receives a value at every step", {"received": len(impl["series"])})
    gp = grid(case["prod_layout"])
    for day, loc in impl["series"]:
        want = {}
        for i in range(case["n"]):
            for k, v in located(gp, field(gp, i, day)).items():
                want[k] = want.get(k, 0.0) + v * case["weights"][i]
        bad = [(k, loc.get(k), w) for k, w in want.items() if loc.get(k) is None or abs(loc[k] - w) > 1e-9 * max(1.0, abs(w))]
        if bad:
            return ("the merger returns the sum of value times weight for the requested time (at every location of the field)",
                    {"day": day, "location": list(bad[0][0]), "got": bad[0][1], "expected": bad[0][2], "wrong_cells": len(bad)})
    return None
