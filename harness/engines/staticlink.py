"""C06 on static links: a producer with a static output read by static inputs is not reported CONNECTED before every
reader has exchanged its metadata, and every reader's initial pull delivers the producer's value — for readers that
give their metadata at once or only in a later connect round, in every listing order."""
import itertools

import numpy as np

import finam as fm

from ..fmutil import limited


class Producer(fm.Component):
    def __init__(self, value, units):
        super().__init__()
        self.value, self.units = value, units

    def _initialize(self):
        self.outputs.add(name="Out", static=True, time=None, grid=fm.NoGrid(), units=self.units)
        self.create_connector()

    def _connect(self, start_time):
        self.try_connect(start_time, push_data={"Out": self.value})

    def _validate(self):
        pass

    def _update(self):
        pass

    def _finalize(self):
        pass


class Reader(fm.Component):
    def __init__(self, late, units):
        super().__init__()
        self.late, self.units, self.rounds, self.got = late, units, 0, None

    def _initialize(self):
        if self.late:
            self.inputs.add(name="In", static=True)
        else:
            self.inputs.add(name="In", static=True, time=None, grid=fm.NoGrid(), units=self.units)
        self.create_connector(pull_data=["In"])

    def _connect(self, start_time):
        self.rounds += 1
        infos = {}
        if self.late and self.rounds >= self.late and self.connector.in_infos["In"] is None:
            infos = {"In": fm.Info(time=None, grid=fm.NoGrid(), units=self.units)}
        self.try_connect(start_time, exchange_infos=infos)
        if self.connector.in_data["In"] is not None:
            self.got = float(np.asarray(fm.data.get_magnitude(self.connector.in_data["In"])).reshape(-1)[0])

    def _validate(self):
        pass

    def _update(self):
        pass

    def _finalize(self):
        pass


def gen(rng):
    return {"part": "staticlink", "readers": [{"late": 0, "units": rng.choice(["m", "km"])} for _ in range(rng.choice([1, 2]))],
            "value": rng.randint(1, 9)}


def run_order(case, order):
    prod = Producer(float(case["value"]), "km")
    readers = [Reader(r["late"], r["units"]) for r in case["readers"]]
    comps = [prod] + readers
    early = []
    orig = prod.connect

    def watched(start_time):
        orig(start_time)
        if prod.status == fm.ComponentStatus.CONNECTED:
            missing = [k for k, r in enumerate(readers) if r.connector.in_infos["In"] is None]
            if missing:
                early.append(missing)

    prod.connect = watched
    res = {"error": None}
    try:
        comp = fm.Composition([comps[i] for i in order], log_level="ERROR")
        for r in readers:
            prod.outputs["Out"] >> r.inputs["In"]
        limited(30, comp.connect)
    except Exception as e:  # noqa
        res["error"] = f"{type(e).__name__}: {str(e)[:160]}"
    res["connected_early"] = early
    res["got"] = [r.got for r in readers]
    return res


def check(case):
    n = len(case["readers"]) + 1
    for order in itertools.permutations(range(n)):
        r = run_order(case, list(order))
        if r["error"]:
            return ("connect() of a static producer and its static readers succeeds in every listing order", {"order": list(order), "error": r["error"]})
        if r["connected_early"]:
            return ("a component is never reported CONNECTED while one of its declared exchanges is outstanding (static output, static readers)",
                    {"order": list(order), "readers_without_metadata_when_the_producer_was_connected": r["connected_early"][0]})
        want = [case["value"] * (1000.0 if rd["units"] == "m" else 1.0) for rd in case["readers"]]
        if any(g is None or abs(g - w) > 1e-9 for g, w in zip(r["got"], want)):
            return ("every requested initial pull delivers the producer's initial value (in the reader's units)",
                    {"order": list(order), "got": r["got"], "wanted": want})
    return None
