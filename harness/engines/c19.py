"""C19 — composition validation rejects exactly the unworkable topologies.

Correspondence: random coupling forests (push/pull outputs, pull/push inputs, static or not,
chains of 0-4 adapters of every kind, fan-out at every position, dangling adapters, components
that are linked but not listed) are built from real FINAM objects with `>>`, run through the real
`Composition.connect()` and through `Finam.Validate.validate` / `links` of the Lean model.
Observables: error class, which rule fired (from the message prefix, correspondence only), and
`Composition.metadata["links"]` as a set after a successful connect.
Oracle (independent of the model and of FINAM's validation code): the five clauses of the
property are evaluated on the *case description*; `connect()` must reject with FinamConnectError
before any component's connect / any info or data exchange exactly when a clause holds, and after
success the reported link list must be exactly the list of `>>` calls the harness made.
"""
import datetime as dt
import logging

import finam as fm

from .. import common
from ..fmutil import limited, T, ad, err_class

MODULES = ["Validate", "ValidateLemmas"]
GEN_OBLIGATIONS = ["caching_push_based", "push_based_adapters_are_caching", "passthrough_flags", "slot_flags",
                   "no_adapter_needs_pull", "delay_fixed_flags", "delay_to_push_flags", "delay_to_pull_flags",
                   "nobranch_names", "static_flags"]
DAY = dt.timedelta(days=1)


# ---------------------------------------------------------------------------------------------
# element kinds: the *specified* flags (needs_push, needs_pull, no_branch); the Lean table
# obligations of Props/Gen.lean state the same facts about the classes of /repo
# ---------------------------------------------------------------------------------------------
class NbAdapter(fm.Adapter, fm.NoBranchAdapter):
    """marker-only no-branch adapter"""

    def _get_data(self, time, target):
        return self.pull_data(time, target)


class PushAdapter(fm.Adapter):
    """push-based adapter without the no-branch marker (keeps the newest data set)"""

    def __init__(self):
        super().__init__()
        self._latest = None

    @property
    def needs_push(self):
        return True

    def _source_updated(self, time):
        self._latest = self.pull_data(time, self)

    def _get_data(self, time, target):
        return self._latest


ADAPTERS = {
    #            constructor,                       push,  pull,  no_branch
    "scale": (lambda: ad.Scale(1.0), False, False, False),
    "linear": (lambda: ad.LinearTime(), True, False, True),
    "prev": (lambda: ad.PreviousTime(), True, False, True),
    "next": (lambda: ad.NextTime(), True, False, True),
    "step": (lambda: ad.StepTime(), True, False, True),
    "avg": (lambda: ad.AvgOverTime(), True, False, True),
    "nb": (lambda: NbAdapter(), False, False, True),
    "pushonly": (lambda: PushAdapter(), True, False, False),
    "dfix": (lambda: ad.DelayFixed(DAY), False, False, False),
    "dpull": (lambda: ad.DelayToPull(), False, False, True),
    "dpush": (lambda: ad.DelayToPush(), False, False, False),
}
AD_WEIGHTS = {"scale": 30, "linear": 8, "prev": 4, "next": 4, "step": 3, "avg": 3, "nb": 8, "pushonly": 5,
              "dfix": 6, "dpull": 5, "dpush": 5}
OUT_FLAGS = {"push": (True, False), "pull": (False, True)}  # Output / CallbackOutput
IN_FLAGS = {"pull": (False, True), "push": (True, False)}  # Input / CallbackInput


# ---------------------------------------------------------------------------------------------
# recording slots (subclasses of the public slot classes; behaviour unchanged)
# ---------------------------------------------------------------------------------------------
def _rec(base, methods):
    def make(m):
        def wrapped(self, *a, **k):
            self._verif_log.append((m, self.name))
            return getattr(base, m)(self, *a, **k)

        return wrapped

    return type("R" + base.__name__, (base,), {m: make(m) for m in methods})


ROutput = _rec(fm.Output, ["get_info", "push_data", "get_data", "notify_targets"])
RCallbackOutput = _rec(fm.CallbackOutput, ["get_info", "get_data", "notify_targets"])
RInput = _rec(fm.Input, ["exchange_info", "pull_data", "source_updated"])
RCallbackInput = _rec(fm.CallbackInput, ["exchange_info", "pull_data", "source_updated"])


def _make_comp(base):
    class HComp(base):
        def __init__(self, spec, log, name):
            super().__init__()
            self.spec, self.log = spec, log
            self._name0 = name
            if base is fm.TimeComponent:
                self._time = T(0)

        def _next_time(self):
            return self.time + DAY

        def _initialize(self):
            for k, i in enumerate(self.spec["inputs"]):
                info = fm.Info(time=None, grid=fm.NoGrid(), units=None)
                if i["kind"] == "push":
                    slot = RCallbackInput(callback=lambda c, t: None, name=f"i{k}", info=info, static=i["static"])
                else:
                    slot = RInput(name=f"i{k}", info=info, static=i["static"])
                slot._verif_log = self.log
                self.inputs.add(slot)
            for k, o in enumerate(self.spec["outputs"]):
                info = fm.Info(time=T(0), grid=fm.NoGrid(), units="")
                if o["kind"] == "pull":
                    slot = RCallbackOutput(callback=lambda c, t: 1.0, name=f"o{k}", info=info)
                else:
                    slot = ROutput(name=f"o{k}", info=info, static=o["static"])
                slot._verif_log = self.log
                self.outputs.add(slot)
            self.create_connector()

        def _connect(self, start_time):
            self.log.append(("component_connect", self._name0))
            push = {f"o{k}": 1.0 for k, o in enumerate(self.spec["outputs"]) if o["kind"] != "pull"}
            self.try_connect(start_time if base is fm.TimeComponent else T(0), push_data=push)

        def _validate(self):
            pass

        def _update(self):
            if base is fm.TimeComponent:
                self._time += DAY

        def _finalize(self):
            pass

    return HComp


TimedComp = _make_comp(fm.TimeComponent)
PlainComp = _make_comp(fm.Component)


# ---------------------------------------------------------------------------------------------
# case generation
# ---------------------------------------------------------------------------------------------
def gen_case(rng, profile=None):
    """profile: None (mixed) | 'valid' (avoid every rejected pattern)"""
    ncomp = rng.choice([2, 2, 3, 3, 4])
    comps = []
    for c in range(ncomp):
        nin = rng.choice([0, 1, 1, 2, 2, 3])
        nout = rng.choice([0, 1, 1, 2])
        comps.append({
            "in_comp": not (profile != "valid" and rng.random() < 0.08),
            "timed": rng.random() < 0.8,
            "inputs": [{"kind": rng.choices(["pull", "push"], [80, 20])[0], "static": rng.random() < 0.12}
                       for _ in range(nin)],
            "outputs": [{"kind": rng.choices(["push", "pull"], [78, 22])[0], "static": False}
                        for _ in range(nout)],
        })
    for c in comps:
        for o in c["outputs"]:
            if o["kind"] == "push" and rng.random() < 0.15:
                o["static"] = True
    if not any(c["in_comp"] for c in comps):
        comps[0]["in_comp"] = True
    if not any(c["outputs"] for c in comps):
        comps[0]["outputs"].append({"kind": "push", "static": False})
    trees = [{"out": [c, k], "kids": []} for c, cs in enumerate(comps) for k in range(len(cs["outputs"]))]
    n_roots = len(trees)
    ad_names, ad_w = list(AD_WEIGHTS), list(AD_WEIGHTS.values())

    def nodes_of(t, depth=0, acc=None):
        acc = [] if acc is None else acc
        if "in" not in t:
            acc.append((t, depth))
            for k in t["kids"]:
                nodes_of(k, depth + 1, acc)
        return acc

    def pick_adapter(src, fanout_parent):
        if profile == "valid":
            names = [n for n in ad_names
                     if not (src["kind"] == "pull" and ADAPTERS[n][1])]
            return rng.choices(names, [AD_WEIGHTS[n] for n in names])[0]
        return rng.choices(ad_names, ad_w)[0]

    unconnected = []
    for c, cs in enumerate(comps):
        for k, i in enumerate(cs["inputs"]):
            if profile != "valid" and rng.random() < 0.05:
                unconnected.append({"in": [c, k]})
                continue
            if profile != "valid" and rng.random() < 0.04:  # adapter chain without a source
                t = {"in": [c, k]}
                for _ in range(rng.choice([1, 1, 2])):
                    t = {"ad": rng.choices(ad_names, ad_w)[0], "kids": [t]}
                trees.append(t)
                continue
            root = trees[rng.randrange(n_roots)]
            src = comps[root["out"][0]]["outputs"][root["out"][1]]
            if profile == "valid":
                # keep the case inside every rule
                cand = [t for t in trees[:n_roots]
                        if comps[t["out"][0]]["in_comp"]
                        and not (i["static"] and not comps[t["out"][0]]["outputs"][t["out"][1]]["static"])
                        and not (comps[t["out"][0]]["outputs"][t["out"][1]]["kind"] == "pull" and i["kind"] == "push")]
                if not cand:
                    i["static"] = False
                    i["kind"] = "pull"
                    cand = [t for t in trees[:n_roots] if comps[t["out"][0]]["in_comp"]]
                if not cand:
                    unconnected.append({"in": [c, k]})
                    continue
                root = rng.choice(cand)
                src = comps[root["out"][0]]["outputs"][root["out"][1]]
            nodes = nodes_of(root)
            if profile == "valid":
                def nb_above(root, node):
                    # true if node or an ancestor is no-branch
                    def rec(t, flag):
                        f = flag or ("ad" in t and ADAPTERS[t["ad"]][3])
                        if t is node:
                            return f
                        for k2 in t.get("kids", []):
                            if "in" not in k2:
                                r = rec(k2, f)
                                if r is not None:
                                    return r
                        return None
                    return rec(root, False)
                nodes = [(n, d) for n, d in nodes if not (nb_above(root, n) and len(n["kids"]) >= 1)]
            node, depth = rng.choice(nodes) if rng.random() < 0.6 else nodes[0]
            extra = rng.choice([0, 0, 0, 1, 1, 2, 3, 4])
            extra = max(0, min(extra, 4 - depth))
            cur = node
            for _ in range(extra):
                a = {"ad": pick_adapter(src, cur), "kids": []}
                cur["kids"].append(a)
                cur = a
            cur["kids"].append({"in": [c, k]})
    # dangling adapter tails (an adapter nobody listens to)
    if profile != "valid" and rng.random() < 0.15:
        root = trees[rng.randrange(n_roots)]
        node, depth = rng.choice(nodes_of(root))
        if depth < 4:
            node["kids"].insert(rng.randrange(len(node["kids"]) + 1), {"ad": rng.choices(ad_names, ad_w)[0], "kids": []})
    trees += unconnected
    order = [c for c, cs in enumerate(comps) if cs["in_comp"]]
    rng.shuffle(order)
    return {"comps": comps, "order": order, "trees": trees}


# ---------------------------------------------------------------------------------------------
# positions, specification flags
# ---------------------------------------------------------------------------------------------
def walk_positions(case):
    """yield (pos, node, path_nodes) for every element of the forest"""
    out = []

    def rec(t, pos, path):
        path = path + [t]
        out.append((pos, t, path))
        for j, k in enumerate(t.get("kids", [])):
            rec(k, pos + [j], path)

    for r, t in enumerate(case["trees"]):
        rec(t, [r], [])
    return out


def flags(case, node):
    """(is_output, needs_push, needs_pull, no_branch, static) as specified"""
    if "out" in node:
        o = case["comps"][node["out"][0]]["outputs"][node["out"][1]]
        p, q = OUT_FLAGS[o["kind"]]
        return (True, p, q, False, bool(o["static"]))
    if "in" in node:
        i = case["comps"][node["in"][0]]["inputs"][node["in"][1]]
        p, q = IN_FLAGS[i["kind"]]
        return (False, p, q, False, bool(i["static"]))
    _, p, q, nb = ADAPTERS[node["ad"]]
    return (False, p, q, nb, False)


def model_request(case):
    def enc(t):
        e = list(flags(case, t))
        if "in" in t:
            return {"e": e, "input": True}
        return {"e": e, "kids": [enc(k) for k in t["kids"]]}

    pos_in, pos_out = {}, {}
    for pos, node, _ in walk_positions(case):
        if "in" in node:
            pos_in[tuple(node["in"])] = pos
        if "out" in node:
            pos_out[tuple(node["out"])] = pos[0]
    comps = []
    for c in case["order"]:
        cs = case["comps"][c]
        comps.append({"inputs": [pos_in[(c, k)] for k in range(len(cs["inputs"]))],
                      "outputs": [pos_out[(c, k)] for k in range(len(cs["outputs"]))]})
    return {"op": "c19", "forest": [enc(t) for t in case["trees"]], "comps": comps}


# ---------------------------------------------------------------------------------------------
# implementation runner
# ---------------------------------------------------------------------------------------------
RULES = [("Unconnected input", "unconnected"), ("Can't connect a static input", "static"),
         ("Dead link", "dead"), ("Disallowed branching", "branch"),
         ("A component was coupled, but not added to this Composition. Affected inputs", "missing_in"),
         ("A component was coupled, but not added to this Composition. Affected outputs", "missing_out")]


def build_objects(case):
    """the real components, slots and adapters of a case, linked; returns (composition, comps, objs by position, created links, log)"""
    log = []
    comps = []
    for c, cs in enumerate(case["comps"]):
        cls = TimedComp if cs["timed"] else PlainComp
        comps.append(cls(cs, log, f"K{c}").with_name(f"K{c}"))
    listed = [comps[c] for c in case["order"]]
    composition = fm.Composition(listed, print_log=False, log_level=logging.CRITICAL, slot_memory_location=None)
    for c, cs in enumerate(case["comps"]):
        if not cs["in_comp"]:
            comps[c].initialize()
    created = []  # links made by the harness: (position of source, position of target)
    objs = {}

    def obj_of(t, pos):
        if "out" in t:
            return comps[t["out"][0]].outputs[f"o{t['out'][1]}"]
        if "in" in t:
            return comps[t["in"][0]].inputs[f"i{t['in'][1]}"]
        return ADAPTERS[t["ad"]][0]().with_name("A" + "_".join(map(str, pos)))

    def rec(t, pos):
        o = obj_of(t, pos)
        objs[tuple(pos)] = o
        for j, k in enumerate(t.get("kids", [])):
            ko = rec(k, pos + [j])
            o >> ko
            created.append((tuple(pos), tuple(pos + [j])))
        return o

    for r, t in enumerate(case["trees"]):
        rec(t, [r])
    log.clear()
    return composition, comps, objs, created, log


def run_impl(case):
    composition, comps, objs, created, log = build_objects(case)
    has_time = any(case["comps"][c]["timed"] for c in case["order"])
    res = {"error": None, "rule": None, "msg": None, "links": None, "pre_exchange": None}
    try:
        limited(60, composition.connect, T(0) if has_time else None)
    except Exception as e:  # noqa
        res["error"] = err_class(e)
        res["msg"] = f"{type(e).__name__}: {str(e)[:160]}"
        for prefix, rule in RULES:
            if res["error"] == "FinamConnectError" and str(e).startswith(prefix):
                res["rule"] = rule
    res["events"] = len(log)
    res["first_events"] = [list(x) for x in log[:4]]
    # validation is over as soon as the first component is asked to connect
    res["passed_validation"] = res["error"] is None or len(log) > 0
    if res["error"] is None:
        name_to_pos = {}
        for pos, o in objs.items():
            if isinstance(o, fm.interfaces.IAdapter):
                name_to_pos[("ada", o.name)] = pos
        for pos, node, _ in walk_positions(case):
            if "out" in node:
                name_to_pos[("out", f"K{node['out'][0]}", f"o{node['out'][1]}")] = tuple(pos)
            if "in" in node:
                name_to_pos[("in", f"K{node['in'][0]}", f"i{node['in'][1]}")] = tuple(pos)
        links = []
        try:
            md_links = composition.metadata["links"]
        except Exception as e:  # noqa
            md_links = []
            res["links_error"] = f"{type(e).__name__}: {str(e)[:120]}"
        for l in md_links:
            f, t = l["from"], l["to"]
            fk = ("out", f["component"].split("@")[0], f["output"]) if "component" in f else ("ada", f["adapter"].split("@")[0])
            tk = ("in", t["component"].split("@")[0], t["input"]) if "component" in t else ("ada", t["adapter"].split("@")[0])
            links.append([list(name_to_pos[fk]), list(name_to_pos[tk])])
        res["links"] = sorted(links) if "links_error" not in res else None
    res["created"] = sorted([list(a), list(b)] for a, b in created)
    return res


# ---------------------------------------------------------------------------------------------
# oracle: the property evaluated on the case description
# ---------------------------------------------------------------------------------------------
def spec_clauses(case):
    """the set of clauses of the property that hold for this topology"""
    listed = set(case["order"])
    out = set()
    for pos, node, path in walk_positions(case):
        root = path[0]
        root_listed = "out" in root and root["out"][0] in listed
        fl = [flags(case, n) for n in path]
        if "in" in node and node["in"][0] in listed:
            if "out" not in root:
                out.add("unconnected")
                continue
            if fl[-1][4] and not fl[0][4]:
                out.add("static")
            if root["out"][0] not in listed:
                out.add("missing")
            # a pull-only source followed on the chain by an element that must be notified by pushes
            if fl[0][2] and not fl[0][1] and any(f[1] for f in fl[1:]):
                out.add("dead")
        if "in" in node and node["in"][0] not in listed and root_listed:
            out.add("missing")
        if root_listed and "in" not in node:
            # fan-out at or downstream of a no-branch adapter
            if len(node["kids"]) > 1 and any(f[3] for f in fl):
                out.add("branch")
    return out


def created_links(case):
    """links of the trees that hold a slot of a listed component"""
    listed = set(case["order"])
    touched = set()
    for pos, node, path in walk_positions(case):
        for key in ("in", "out"):
            if key in node and node[key][0] in listed:
                touched.add(pos[0])
    return sorted([pos[:-1], pos] for pos, node, path in walk_positions(case) if len(pos) > 1 and pos[0] in touched)


def has_open_end(case):
    """an adapter nobody listens to: not a link topology between outputs and inputs (outside the property's
    domain for the link-list clause; `Composition.metadata` raises AttributeError for it on the current tree)"""
    return any("ad" in n and not n["kids"] for _, n, _ in walk_positions(case))


def oracle(case, impl):
    clauses = spec_clauses(case)
    rejected = impl["error"] == "FinamConnectError" and not impl["passed_validation"]
    if clauses and not rejected:
        return ("connect() must reject this topology with FinamConnectError before any exchange: " + ",".join(sorted(clauses)),
                {"error": impl["error"], "msg": impl["msg"], "events_before_error": impl["events"],
                 "first_events": impl["first_events"]})
    if not clauses and not impl["passed_validation"]:
        return ("no clause of the property holds: the topology must pass validation",
                {"error": impl["error"], "msg": impl["msg"]})
    if clauses and impl["events"] != 0:
        return ("rejection must come before any info/data exchange", {"events": impl["first_events"]})
    if impl["error"] is None and not has_open_end(case):
        # links made by `>>` in the trees that hold a slot of a listed component (recorded while building)
        want = created_links(case)
        made = [l for l in impl["created"] if l in want]
        if impl["links"] != made or made != want:
            return ("metadata['links'] must be exactly the links that were created",
                    {"reported": impl["links"], "created": made})
    return None


RULE_TO_CLAUSE = {"unconnected": "unconnected", "static": "static", "dead": "dead", "branch": "branch",
                  "missing_in": "missing", "missing_out": "missing"}


def compare(case, impl, model):
    rejected = impl["error"] == "FinamConnectError" and not impl["passed_validation"]
    m_rej = model["result"] != "ok"
    if rejected != m_rej:
        return {"impl_rejected": rejected, "impl": impl["msg"], "model": model["result"]}
    if rejected and impl["rule"] != model["result"]:
        return {"impl_rule": impl["rule"], "impl": impl["msg"], "model_rule": model["result"]}
    if impl["error"] is None and not has_open_end(case):
        if impl["links"] != sorted(model["links"]):
            return {"impl_links": impl["links"], "model_links": sorted(model["links"])}
    return None


def check_cases(cases, res, stop_on_fail=False):
    models = common.lean_batch([model_request(c) for c in cases])
    for c, m in zip(cases, models):
        impl = run_impl(c)
        clauses = spec_clauses(c)
        n_ad = sum(1 for _, n, _ in walk_positions(c) if "ad" in n)
        fan = sum(1 for _, n, _ in walk_positions(c) if len(n.get("kids", [])) > 1)
        res.case(c, bool(clauses) or (n_ad > 0 and fan > 0))
        res.count("outcome", "rejected" if clauses else ("connected" if impl["error"] is None else "passed_validation_then_" + impl["error"]))
        for cl in clauses:
            res.count("clauses", cl)
        if impl["rule"]:
            res.count("rule_fired", impl["rule"])
        res.count("adapters_in_case", min(n_ad, 8))
        res.count("fan_outs_in_case", min(fan, 4))
        for _, n, _ in walk_positions(c):
            if "ad" in n:
                res.count("adapter_kinds", n["ad"])
        d = compare(c, impl, m)
        if d:
            res.diverge("validate/topology", c, d, m)
        o = oracle(c, impl)
        if o:
            res.fail(c, o[0], o[1])
            if stop_on_fail:
                return True
    return False


def corpus():
    I = lambda kind="pull", static=False: {"kind": kind, "static": static}  # noqa
    O = lambda kind="push", static=False: {"kind": kind, "static": static}  # noqa
    C = lambda ins, outs, in_comp=True: {"in_comp": in_comp, "timed": True, "inputs": ins, "outputs": outs}  # noqa
    return [
        # plain link
        {"comps": [C([], [O()]), C([I()], [])], "order": [0, 1], "trees": [{"out": [0, 0], "kids": [{"in": [1, 0]}]}]},
        # fan-out directly at a no-branch adapter
        {"comps": [C([], [O()]), C([I(), I()], [])], "order": [1, 0],
         "trees": [{"out": [0, 0], "kids": [{"ad": "linear", "kids": [{"in": [1, 0]}, {"in": [1, 1]}]}]}]},
        # fan-out downstream of a no-branch adapter
        {"comps": [C([], [O()]), C([I(), I()], [])], "order": [0, 1],
         "trees": [{"out": [0, 0], "kids": [{"ad": "nb", "kids": [{"ad": "scale", "kids": [{"in": [1, 0]}, {"in": [1, 1]}]}]}]}]},
        # fan-out above a no-branch adapter is fine
        {"comps": [C([], [O()]), C([I(), I()], [])], "order": [0, 1],
         "trees": [{"out": [0, 0], "kids": [{"ad": "linear", "kids": [{"in": [1, 0]}]}, {"ad": "dpull", "kids": [{"in": [1, 1]}]}]}]},
        # pull-only source, push-based adapter two steps down
        {"comps": [C([], [O("pull")]), C([I()], [])], "order": [0, 1],
         "trees": [{"out": [0, 0], "kids": [{"ad": "scale", "kids": [{"ad": "linear", "kids": [{"in": [1, 0]}]}]}]}]},
        # pull-only source into a push input
        {"comps": [C([], [O("pull")]), C([I("push")], [])], "order": [0, 1],
         "trees": [{"out": [0, 0], "kids": [{"in": [1, 0]}]}]},
        # pull-only source through pass-through and delay adapters into a pull input is fine
        {"comps": [C([], [O("pull")]), C([I()], [])], "order": [0, 1],
         "trees": [{"out": [0, 0], "kids": [{"ad": "scale", "kids": [{"ad": "dfix", "kids": [{"in": [1, 0]}]}]}]}]},
        # static input from non-static / static output
        {"comps": [C([], [O()]), C([I(static=True)], [])], "order": [0, 1], "trees": [{"out": [0, 0], "kids": [{"in": [1, 0]}]}]},
        {"comps": [C([], [O(static=True)]), C([I(static=True)], [])], "order": [0, 1],
         "trees": [{"out": [0, 0], "kids": [{"in": [1, 0]}]}]},
        # unconnected input, adapter without source
        {"comps": [C([], [O()]), C([I(), I()], [])], "order": [0, 1],
         "trees": [{"out": [0, 0], "kids": [{"in": [1, 0]}]}, {"in": [1, 1]}]},
        {"comps": [C([], [O()]), C([I(), I()], [])], "order": [0, 1],
         "trees": [{"out": [0, 0], "kids": [{"in": [1, 0]}]}, {"ad": "scale", "kids": [{"in": [1, 1]}]}]},
        # producer / consumer not listed
        {"comps": [C([], [O()], in_comp=False), C([I()], [])], "order": [1], "trees": [{"out": [0, 0], "kids": [{"in": [1, 0]}]}]},
        {"comps": [C([], [O()]), C([I()], [], in_comp=False)], "order": [0],
         "trees": [{"out": [0, 0], "kids": [{"ad": "scale", "kids": [{"in": [1, 0]}]}]}]},
    ]


RULE_TEXT = ("random coupling forests: 2-4 components (time-stepped or not, listed or not), 0-3 inputs "
             "(Input / CallbackInput, static or not) and 0-2 outputs (Output / CallbackOutput, static or not) each, "
             "every input attached below a random node of a random output's tree through 0-4 fresh adapters "
             "(Scale, LinearTime, PreviousTime, NextTime, StepTime, AvgOverTime, marker-only NoBranchAdapter, push-based "
             "adapter without marker, DelayFixed, DelayToPull, DelayToPush), unconnected inputs, adapter chains without "
             "source, adapters without targets, random listing order; half of the cases are generated inside all rules; "
             "non-trivial = a clause of the property holds or the case has adapters and a fan-out; distinct by canonical hash")


def gen_cases(rng, n):
    return [gen_case(rng, "valid" if k % 2 else None) for k in range(n)]


# ---------------------------------------------------------------------------------------------
# the structural precondition of everything above: `>>` builds a forest (oracle only)
# ---------------------------------------------------------------------------------------------
def relink_cases():
    return [{"type": "relink", "first": a, "second": b, "target": t}
            for a in ("output", "adapter") for b in ("output", "adapter") for t in ("input", "adapter")]


def run_relink(case):
    prev = logging.root.manager.disable
    logging.disable(logging.CRITICAL)
    try:
        mk = {"output": lambda n: fm.Output(n), "adapter": lambda n: fm.adapters.Scale(2.0).with_name(n)}
        first, second = mk[case["first"]]("a"), mk[case["second"]]("b")
        target = fm.Input("t") if case["target"] == "input" else fm.adapters.Scale(3.0).with_name("t")
        first >> target
        try:
            second >> target
            err = None
        except Exception as e:  # noqa
            err = type(e).__name__
        return {"second_error": err, "source_is_first": target.source is first}
    finally:
        logging.disable(prev)


def check_relink(res):
    for c in relink_cases():
        impl = run_relink(c)
        res.case(c, True)
        if impl["second_error"] is None or not impl["source_is_first"]:
            res.fail(c, "an input or adapter takes one source: a second `>>` onto it is refused and the first link stays "
                        "(the coupling graph is a forest, which the topology rules are stated over)", impl)
            return True
    return False


def run(ctx, res):
    check_relink(res)
    res.rule = RULE_TEXT
    res.assumptions = ["adapter kinds are those of finam.adapters plus two harness adapters (marker-only no-branch, "
                       "push-based without marker); no adapter needs pull (generated obligation no_adapter_needs_pull)"]
    cases = corpus() + gen_cases(ctx.rng, ctx.n(2500, 40000))
    check_cases(cases, res)


def search(ctx, res, divergences, broken):
    if check_relink(res):
        return
    cases = [d["case"] for d in divergences if d.get("case")] + corpus() + gen_cases(ctx.rng, ctx.n(1500, 12000))
    for c in cases:
        impl = run_impl(c)
        res.case(c, True)
        o = oracle(c, impl)
        if o:
            res.fail(c, o[0], o[1])
            return


def _fails(case):
    try:
        if case.get("type") == "relink":
            impl = run_relink(case)
            return ("relink", impl) if impl["second_error"] is None or not impl["source_is_first"] else None
        return oracle(case, run_impl(case))
    except Exception:  # noqa
        return None


def shrink(ctx, f):
    """drop whole trees, leaves and adapters while the oracle keeps failing"""
    import copy

    case = f["case"]
    if case.get("type") == "relink":
        return f

    def variants(c):
        # remove an input leaf together with the input, splice out an adapter
        for pos, node, path in walk_positions(c):
            if len(pos) > 1 and ("ad" in node):
                v = copy.deepcopy(c)
                parent = v["trees"][pos[0]]
                for j in pos[1:-1]:
                    parent = parent["kids"][j]
                me = parent["kids"][pos[-1]]
                parent["kids"][pos[-1]:pos[-1] + 1] = me["kids"]
                yield v
            if "in" in node:
                v = copy.deepcopy(c)
                if len(pos) > 1:
                    parent = v["trees"][pos[0]]
                    for j in pos[1:-1]:
                        parent = parent["kids"][j]
                    del parent["kids"][pos[-1]]
                    v["trees"].append({"in": node["in"]})
                    # an unconnected input changes the verdict; drop the input from the component instead
                    ci, ki = node["in"]
                    if ki == len(v["comps"][ci]["inputs"]) - 1:
                        v["trees"].pop()
                        v["comps"][ci]["inputs"].pop()
                        yield v

    changed = True
    while changed:
        changed = False
        for v in variants(case):
            o = _fails(v)
            if o:
                case = v
                f = {"case": v, "required": o[0], "observed": o[1], "signature": f.get("signature")}
                changed = True
                break
    return f


def replay(ctx, rp):
    case = rp.get("input") or (rp.get("diverging_case") or {}).get("case")
    if case.get("type") == "relink":
        impl = run_relink(case)
        bad = impl["second_error"] is None or not impl["source_is_first"]
        return {"fails": bad, "oracle": "a second `>>` onto one input is refused and the first link stays" if bad else None, "impl": impl}
    impl = run_impl(case)
    o = oracle(case, impl)
    m = common.lean_batch([model_request(case)])[0]
    return {"fails": bool(o), "oracle": o, "clauses": sorted(spec_clauses(case)), "impl": impl, "model": m,
            "correspondence": compare(case, impl, m)}
