"""C03 for compositions without any time-stepped component (static producers, push-notified consumers, adapters between
them): `run()` has nothing to step, but it still walks the life cycle — every component ends FINALIZED after exactly one
`finalize`, every adapter is finalized exactly once."""
import finam as fm

from ..fmutil import limited


def gen(rng):
    return {"part": "notime", "adapters": rng.randint(0, 2), "consumers": rng.choice([1, 2]), "flip": rng.random() < 0.5,
}


def run(case):
    import datetime as dt
    info = fm.Info(time=None, grid=fm.UniformGrid((3, 2)), units="")
    src = fm.components.StaticSimplexNoise(info=info, seed=3)
    cons = [fm.components.DebugPushConsumer({"In": fm.Info(time=None, grid=None, units=None)}) for _ in range(case["consumers"])]
    comps = [src] + cons
    counts = {}

    def counted(name, obj):
        orig = obj.finalize

        def fin():
            counts[name] = counts.get(name, 0) + 1
            return orig()
        obj.finalize = fin

    for i, c in enumerate(comps):
        counted(f"comp{i}", c)
    comp = fm.Composition(comps[::-1] if case["flip"] else comps, log_level="ERROR")
    ads = []
    for k, c in enumerate(cons):
        cur = src.outputs["Noise"]
        for j in range(case["adapters"]):
            a = fm.adapters.Scale(1.0)
            counted(f"adapter{k}.{j}", a)
            ads.append(f"adapter{k}.{j}")
            cur = cur >> a
        cur >> c.inputs["In"]
    res = {"error": None}
    try:
        limited(30, comp.run)   # (start and end must be None without time components)
    except Exception as e:  # noqa
        res["error"] = f"{type(e).__name__}: {str(e)[:160]}"
    res["finalize_calls"] = counts
    res["expected"] = [f"comp{i}" for i in range(len(comps))] + ads
    res["status"] = [c.status.name for c in comps]
    return res


def oracle(case, impl):
    if impl["error"]:
        return ("a composition without time-stepped components runs (connect, validate, finalize)", {"error": impl["error"]})
    bad = {n: impl["finalize_calls"].get(n, 0) for n in impl["expected"] if impl["finalize_calls"].get(n, 0) != 1}
    if bad:
        return ("every component and every adapter on a link is finalized exactly once", {"finalize_calls": bad})
    if any(s != "FINALIZED" for s in impl["status"]):
        return ("every component ends in the finalized state", {"status": impl["status"]})
    return None
