"""C20 — static slots are time independent; pull-based components are served on demand.

Three parts, each with a correspondence against the Lean model and an implementation-only oracle:
 (1) random push/pull histories on a real static `Output` with a static `Input` and a second,
     non-static `Input` (request times incl. none) vs `Finam.sRun`;
 (2) compositions in which time-stepped consumers read through one or two pull-based components
     from time-stepped producers (`sched` engine): the provider is invoked for exactly the requested
     time, pulls its own inputs for that time, the delivered value is what the producers published
     for it, and the update sequence equals the model's (scheduling through pull components);
 (3) `WeightedSum` with 1-3 (value, weight) pairs in mixed compatible units and 1-2 consumers,
     including consumers asking for the same time, vs `Finam.WS.request` / `weightedSum`.
"""
import datetime as dt
from fractions import Fraction as F

import numpy as np

from . import sched_common as sc
from . import c01
from .. import common
from ..fmutil import limited, T, close, err_class, fm, scalar
from ..schedlib import H, TH, hours, model_request, run_impl

MODULES = sc.MODULES + ["Static"]
GEN_OBLIGATIONS = ["slot_flags", "static_flags"]


_SCRATCH = []


def _scratch():
    import atexit, os, shutil, tempfile
    if not _SCRATCH:
        base = os.path.join(common.VERIF, ".scratch")
        os.makedirs(base, exist_ok=True)
        d = tempfile.mkdtemp(prefix="C20-", dir=base)
        _SCRATCH.append(d)
        atexit.register(lambda: shutil.rmtree(d, ignore_errors=True))
    return _SCRATCH[0]


# ------------------------------------------------------------------ (1) static slots
def gen_static(rng):
    ops = []
    for _ in range(rng.randint(2, 14)):
        r = rng.random()
        if r < 0.3:
            ops.append(["push", rng.randint(1, 50)])
        elif r < 0.7:
            ops.append(["pull", rng.choice([None, 0, 3, 17, 1000])])
        else:
            ops.append(["get", rng.choice([None, 0, 5, 99])])
    case = {"part": "static", "ops": ops}
    if rng.random() < 0.3:
        case["mem_limit"] = rng.choice([0, 0, 8, 16])   # the static payload may live in a spill file
    if rng.random() < 0.35:
        case["conv"] = rng.choice(["km-m", "m-mm"])     # both inputs convert the units of the publication (x1000)
    return case


def run_static(case):
    ou, iu = (case["conv"].split("-") if case.get("conv") else ("", ""))
    out = fm.Output(name="out", static=True, info=fm.Info(time=None, grid=fm.NoGrid(), units=ou))
    if case.get("mem_limit") is not None:
        out.memory_limit = case["mem_limit"]
        out.memory_location = _scratch()
    sin = fm.Input(name="sin", static=True, info=fm.Info(time=None, grid=fm.NoGrid(), units=iu))
    nin = fm.Input(name="nin", static=False, info=fm.Info(time=None, grid=fm.NoGrid(), units=iu))
    out >> sin
    out >> nin
    sin.ping()
    nin.ping()
    sin.exchange_info()
    nin.exchange_info()
    res = []
    fetches = []
    orig = out.get_data

    def logged(time, target):
        r = orig(time, target)
        fetches.append(target is sin)
        return r

    out.get_data = logged
    for op, arg in case["ops"]:
        try:
            if op == "push":
                out.push_data(np.array(float(arg)), None)
                res.append({"ok": None})
            else:
                inp = sin if op == "pull" else nin
                v = inp.pull_data(None if arg is None else T(arg * 3_600_000_000))
                res.append({"ok": int(round(scalar(v)))})
        except Exception as e:  # noqa
            res.append({"err": err_class(e)})
    res.append({"static_input_fetches": sum(1 for f in fetches if f)})
    try:
        out.finalize()   # removes a spill file, if any
    except Exception:  # noqa
        pass
    return res


def static_factor(case):
    return 1000 if case.get("conv") else 1


def oracle_static(case, impl):
    first = None
    fetched = impl[-1]["static_input_fetches"]
    impl = impl[:-1]
    served = sum(1 for (op, _a), r in zip(case["ops"], impl) if op == "pull" and "ok" in r)
    if fetched > 1 or (served > 0 and fetched != 1):
        return ("a static input fetches once and then serves its cached value",
                {"successful_fetches_from_source": fetched, "served_pulls": served})
    for (op, arg), r in zip(case["ops"], impl):
        if op == "push":
            if first is None:
                if "err" in r:
                    return ("a static output accepts its first publication", {"op": [op, arg], "got": r})
                first = arg
            elif r.get("err") != "FinamStaticDataError":
                return ("a static output refuses further publications with a static-data error", {"op": [op, arg], "got": r})
        else:
            if first is None:
                if r.get("err") != "FinamNoDataError":
                    return ("nothing is served before the publication (no-data error)", {"op": [op, arg], "got": r})
            elif r.get("ok") != first * static_factor(case):
                return ("the one publication is served unchanged (in the input's units) for every request time, including none",
                        {"op": [op, arg], "got": r, "published": first})
    return None


# ------------------------------------------------------------------ (2) pull-based components
def gen_pull(rng):
    """producers -> P1 (-> P2) -> consumer(s); a pull-based component has one consumer path so that request times
    reaching its sources are monotone (fan-out with different paces is the recorded finding pull-fanout-eviction)"""
    nprod = rng.randint(1, 2)
    comps = [{"kind": "time", "start": 0, "steps": [rng.choice([1, 2, 3])]} for _ in range(nprod)]
    p1 = len(comps)
    comps.append({"kind": "pull", "nout": 1})
    links = []
    for a in range(nprod):
        chain = rng.choice([[], [], [["scale"]], [["lin"]], [["prev"]], [["dfix", rng.randint(0, 3)]]])
        links.append({"src": a, "out": 0, "dst": p1, "ads": chain})
    last = p1
    if rng.random() < 0.4:
        p2 = len(comps)
        comps.append({"kind": "pull", "nout": 1})
        links.append({"src": p1, "out": 0, "dst": p2, "ads": rng.choice([[], [["scale"]]])})
        if rng.random() < 0.5:
            links.append({"src": rng.randrange(nprod), "out": 0, "dst": p2, "ads": []})
        last = p2
    if rng.random() < 0.3:
        # a producer is itself a consumer: A -> B -> P -> C.  When the scheduler descends from P's frame into B, B's
        # inputs have to be judged by B's own next pull, not by the time the consumer behind P asked for
        b = rng.randrange(nprod)
        comps[b]["steps"] = [rng.choice([2, 3, 4, 5])]
        up = len(comps)
        comps.append({"kind": "time", "start": 0, "steps": [rng.choice([1, 1, 2, 3])]})
        links.append({"src": up, "out": 0, "dst": b, "ads": rng.choice([[], [], [["scale"]], [["lin"]]])})
    cons = len(comps)
    steps = [rng.choice([1, 2, 3, 4, 5])]
    if rng.random() < 0.3:
        steps.append(rng.choice([1, 2, 3]))
    comps.append({"kind": "time", "start": 0, "steps": steps})
    # the links leaving the pull-based component may carry a fixed delay (smaller than the consumer's step, so the
    # requests reaching the component's sources stay monotone)
    dly = lambda: [["dfix", rng.randint(1, max(1, min(steps) - 1))]] if min(steps) > 1 else [["dfix", 1]]
    links.append({"src": last, "out": 0, "dst": cons, "ads": rng.choice([[], [["scale"]], dly(), dly()])})
    r = rng.random()
    if r < 0.3:
        # the same consumer reads a second output of the pull-based component (same pace: no fan-out issue),
        # possibly with a different delay than the first path
        comps[last]["nout"] = 2
        links.append({"src": last, "out": 1, "dst": cons, "ads": rng.choice([[], [], dly()])})
    elif r < 0.55 and (r >= 0.4 or last == p1):
        # the consumer reads the *same* output twice: first through a delay, then directly (in this order the
        # requests reaching the component's sources stay monotone); the scheduler must keep the larger of the two
        # times it needs from that output
        links[-1]["ads"] = dly()
        links.append({"src": last, "out": 0, "dst": cons, "ads": rng.choice([[], [], [["scale"]]])})
    elif r < 0.4 and last != p1:
        # diamond: the consumer also reads the first pull-based component directly
        links.append({"src": p1, "out": 0, "dst": cons, "ads": []})
    if r >= 0.55 and rng.random() < 0.35:
        # a consumer that starts later than the data it reads, behind a delay that reaches back before its own start: the
        # delay adapter clamps at the start of the *delivered* data, not at the consumer's
        comps[cons]["steps"] = [steps[0]]
        comps[cons]["start"] = rng.randint(3, 8)
        links[-1]["ads"] = [["dfix", steps[0] + rng.randint(1, 4)]] + rng.choice([[], [["scale"]]])
    order = list(range(len(comps)))
    rng.shuffle(order)
    return {"part": "pull", "comps": comps, "links": links, "order": order, "end": rng.randint(6, 24) + comps[cons]["start"]}


def gen_pull_feedback(rng):
    """a feedback loop that runs through a pull-based component and is broken by a fixed delay placed *behind* it:
    Model >> P(pull) >> DelayFixed(d) >> Ctrl >> Model with d >= the sum of the two steps.  The scheduling guarantee
    has to follow the delayed request through the pull-based component, otherwise the loop looks unresolved"""
    a, b = rng.choice([1, 2, 3]), rng.choice([1, 2, 3, 4])
    d = a + b + rng.choice([0, 0, 1, 2])
    comps = [{"kind": "time", "start": 0, "steps": [a]}, {"kind": "pull", "nout": 1}, {"kind": "time", "start": 0, "steps": [b]}]
    links = [{"src": 0, "out": 0, "dst": 1, "ads": [["scale"]] if rng.random() < 0.3 else []},
             {"src": 1, "out": 0, "dst": 2, "ads": [["dfix", d]]},
             {"src": 2, "out": 0, "dst": 0, "ads": []}]
    order = [0, 1, 2]
    rng.shuffle(order)
    return {"comps": comps, "links": links, "order": order, "end": rng.randint(8, 20), "part": "pull"}


def oracle_pull(spec, impl):
    if impl["error"] is not None:
        return ("a consumer reading through pull-based components is served", {"error": impl["error"], "msg": impl.get("msg")})
    nin, nout, out_index = sc.layout(spec)
    owner_of_out = {gi: c for (c, o), gi in out_index.items()}
    # every provider invocation happens for the time just requested from its output, and is followed by requests
    # to its sources for that same time (possibly shifted by adapters on those links: only direct links are judged)
    ev = impl["events"]
    # what a time-stepped consumer asks of a pull-based output is its pull time shifted by the fixed delays on the link,
    # clamped at the start of the data the output delivers (its metadata time), not at the consumer's own start
    starts = [c["start"] for c in spec["comps"] if c["kind"] == "time"]
    t0 = min(starts) if starts else 0
    for k, (u, t_new, reqs) in enumerate(sc.split_updates(impl)):
        mine = [l for l in spec["links"] if l["dst"] == u]
        for l in mine:
            if spec["comps"][l["src"]]["kind"] != "pull" or "via" in l or not all(a[0] in ("scale", "dfix") for a in l["ads"]):
                continue
            gi = out_index[(l["src"], l["out"])]
            if sum(1 for x in spec["links"] if out_index[(x["src"], x["out"])] == gi) != 1:
                continue     # (another reader of the same output — also another pull-based component — asks for its own times)
            exp = t_new
            for a in reversed(l["ads"]):
                if a[0] == "dfix":
                    exp = min(exp, t0) if exp - a[1] < t0 else exp - a[1]
            got = {t for tag, t in reqs if tag == ("out", gi)}
            if got and got != {exp}:
                return ("a pull-based output is asked for the consumer's pull time shifted by the link's delay adapters "
                        "(clamped at the start of the delivered data)",
                        {"update_index": k, "consumer": u, "pull_time": t_new, "chain": l["ads"], "expected_request": exp, "requested": sorted(got)})
    for k, e in enumerate(ev):
        if e[0] != "cb":
            continue
        _, pc, o, t = e
        prev = ev[k - 1] if k else None
        if not (prev and prev[0] == "req" and prev[1] == ("out", out_index[(pc, o)]) and prev[2] == t):
            return ("the provider of a pull-based output is invoked for exactly the requested time",
                    {"provider_time": t, "preceding_event": prev})
        # requests to the component's own inputs
        n_inputs = sum(1 for l in spec["links"] if l["dst"] == pc)
        direct = [li for li, l in enumerate(spec["links"]) if l["dst"] == pc and not l["ads"]]
        seen = []
        for e2 in ev[k + 1:]:
            if e2[0] == "req" and e2[1][0] == "out" and owner_of_out[e2[1][1]] != pc:
                seen.append(e2)
            if e2[0] in ("cb", "got", "update") and e2 is not e:
                if e2[0] != "cb":
                    break
        for li in direct:
            l = spec["links"][li]
            gi = out_index[(l["src"], l["out"])]
            ts = [x[2] for x in seen if x[1] == ("out", gi)]
            if ts and t not in ts:
                return ("a pull-based component pulls its own inputs for the same time it was asked for",
                        {"asked_for": t, "input_requests": ts})
    return None


# ------------------------------------------------------------------ (3) weighted sum
UNITS = {"m": F(1), "km": F(1000), "cm": F(1, 100)}


class Prod(fm.TimeComponent):
    def __init__(self, name, units, step, fn):
        super().__init__()
        self._name, self.units, self.step, self.fn = name, units, step * H, fn
        self._time = TH(0)

    def _next_time(self):
        return self.time + self.step

    def _initialize(self):
        self.outputs.add(name="Out", time=self.time, grid=fm.NoGrid(), units=self.units)
        self.create_connector()

    def _connect(self, st):
        self.try_connect(st, push_data={"Out": self.fn(0)})

    def _validate(self):
        pass

    def _update(self):
        self._time += self.step
        self.outputs["Out"].push_data(self.fn(hours(self.time)), self.time)

    def _finalize(self):
        pass


class Cons(fm.TimeComponent):
    def __init__(self, name, step, log, twice=False):
        super().__init__()
        self._name, self.step, self.log = name, step * H, log
        self._time = TH(0)
        self.twice = twice     # a second input on the same source, read in the same update for the same time

    def _next_time(self):
        return self.time + self.step

    def _initialize(self):
        self.inputs.add(name="In", time=self.time, grid=fm.NoGrid(), units=None)
        if self.twice:
            self.inputs.add(name="In2", time=self.time, grid=fm.NoGrid(), units=None)
        self.create_connector()

    def _connect(self, st):
        self.try_connect(st)

    def _validate(self):
        pass

    def _update(self):
        nt = self.time + self.step
        v = self.inputs["In"].pull_data(nt)
        if self.twice:
            self.inputs["In2"].pull_data(nt)
        self._time = nt
        self.log.append((self.name, hours(nt), float(np.ravel(fm.data.get_magnitude(v))[0]), str(v.units)))

    def _finalize(self):
        pass


def gen_ws(rng):
    n = rng.randint(1, 3)
    pairs = [{"units": rng.choice(list(UNITS)), "a": rng.randint(1, 5), "b": rng.randint(0, 3), "w": rng.choice([1, 2, 4]), "wd": rng.choice([1, 2, 4])}
             for _ in range(n)]
    for p in pairs:
        if rng.random() < 0.2:
            p["wpercent"] = True
    same_units = rng.random() < 0.5
    if same_units:
        for p in pairs:
            p["units"] = pairs[0]["units"]
    ncons = rng.randint(1, 2)
    csteps = [rng.choice([1, 2, 3]) for _ in range(ncons)]
    if ncons == 2 and rng.random() < 0.6:
        csteps[1] = csteps[0]  # both consumers ask for the same times
    if n >= 2 and rng.random() < 0.12:
        # an input without data (NaN) whose weight is exactly zero: value times weight is NaN, and so is the sum
        k = rng.randrange(n)
        pairs[k]["w"], pairs[k]["nan"] = 0, True
    return {"part": "ws", "pairs": pairs, "csteps": csteps, "end": rng.randint(4, 12), "order_flip": rng.random() < 0.5}


def gen_ws_dpull(rng):
    """a merger with a DelayToPull on one value link, read by two consumers that ask for the same times"""
    c = gen_ws(rng)
    for p in c["pairs"]:
        p.pop("nan", None)
        p["w"] = p["w"] or 1
    c["pairs"][0]["dpull"] = True
    step = rng.choice([1, 2, 3])
    c["csteps"] = [step] if rng.random() < 0.6 else [step, step]
    c["twice"] = True     # every consumer reads the merger through two inputs in one update
    return c


def run_ws(case):
    log = []
    prods, weights = [], []
    for i, p in enumerate(case["pairs"]):
        prods.append(Prod(f"V{i}", p["units"], 1, lambda h, p=p: float("nan") if p.get("nan") else float(p["a"] * h + p["b"])))
        # a weight may be published in percent (a dimensionless unit other than 1): it is converted on its link like any value
        weights.append(Prod(f"W{i}", "percent", 1, lambda h, p=p: 100.0 * p["w"] / p["wd"]) if p.get("wpercent")
                       else Prod(f"W{i}", "", 1, lambda h, p=p: p["w"] / p["wd"]))
    ws = fm.components.WeightedSum(inputs=[f"in{i}" for i in range(len(prods))])
    cons = [Cons(f"C{k}", s, log, twice=bool(case.get("twice"))) for k, s in enumerate(case["csteps"])]
    comps = prods + weights + [ws] + cons
    if case["order_flip"]:
        comps = comps[::-1]
    comp = fm.Composition(comps)
    for i, (p, w) in enumerate(zip(prods, weights)):
        if case["pairs"][i].get("dpull"):
            # a DelayToPull upstream of the merger: every *repeated* request for one time must be answered from the merger's
            # memo, or the adapter's request history advances twice per step
            p.outputs["Out"] >> fm.adapters.DelayToPull(steps=1) >> ws.inputs[f"in{i}"]
        else:
            p.outputs["Out"] >> ws.inputs[f"in{i}"]
        w.outputs["Out"] >> ws.inputs[f"in{i}_weight"]
    for c in cons:
        ws.outputs["WeightedSum"] >> c.inputs["In"]
        if case.get("twice"):
            ws.outputs["WeightedSum"] >> c.inputs["In2"]
    try:
        limited(120, comp.run, end_time=TH(case["end"]))
        return {"error": None, "log": log}
    except Exception as e:  # noqa
        return {"error": err_class(e), "msg": f"{type(e).__name__}: {e}"[:300], "log": log}


def expected_ws(case, h):
    u0 = case["pairs"][0]["units"]
    return sum(F(p["a"] * h + p["b"]) * UNITS[p["units"]] / UNITS[u0] * F(p["w"], p["wd"]) for p in case["pairs"])


def oracle_ws(case, impl):
    # consumers with different paces behind one pull-based component: recorded finding of C01 (pull-fanout-eviction)
    if impl["error"] is not None:
        if len(set(case["csteps"])) > 1 and impl["error"] == "FinamTimeError":
            return None
        return ("the weighted-sum merger serves every request (also repeated requests for one time)",
                {"error": impl["error"], "msg": impl.get("msg")})
    names = {str(fm.UNITS.Unit(u)): u for u in UNITS}
    allowed = {str(fm.UNITS.Unit(p["units"])) for p in case["pairs"]}
    u0 = case["pairs"][0]["units"]
    for name, h, v, units in impl["log"]:
        if units not in allowed:
            return ("the result is in the common units of the inputs (one of the inputs' compatible units)",
                    {"got": units, "inputs": sorted(allowed)})
        # which of the compatible input units the merger settles on depends on which input's metadata arrives
        # first; the delivered quantity must be the same physical value
        if any(p.get("nan") for p in case["pairs"]):
            if v == v:   # not NaN
                return ("the merger returns the sum of value times weight: a NaN value stays NaN also under a zero weight",
                        {"consumer": name, "time": h, "got": v})
            continue
        exp = expected_ws(case, h) * UNITS[u0] / UNITS[names[units]]
        if not close(v, float(exp)):
            return ("the merger returns the sum of value times weight for the requested time",
                    {"consumer": name, "time": h, "got": v, "units": units, "expected": float(exp)})
    return None


def model_ws(case, impl):
    reqs = []
    for name, h, v, units in impl["log"]:
        u0 = case["pairs"][0]["units"]
        pairs = []
        for p in case["pairs"]:
            val = F(p["a"] * h + p["b"]) * UNITS[p["units"]] / UNITS[u0]
            pairs.append([[val.numerator, val.denominator], [p["w"], p["wd"]]])
        reqs.append({"t": int(h), "pairs": pairs})
    return {"op": "c20_ws", "requests": reqs}


# ------------------------------------------------------------------ engine
def run(ctx, res):
    res.rule = ("(1) random push/pull/get histories on a static output with a static and a non-static input, request "
                "times incl. none; (2) producers -> one or two pull-based components -> consumer, adapters on the "
                "producer links, shuffled listing order; (3) WeightedSum with 1-3 pairs in m/km/cm and dimensionless "
                "weights, 1-2 consumers (60% asking for identical times); non-trivial = a value was served after a "
                "state change (second push / provider invoked / memo hit); distinct by canonical hash")
    res.assumptions = ["pull-based components with consumers advancing at different paces are the recorded finding "
                       "pull-fanout-eviction of C01 and are not judged here",
                       "offset units (degC) are not used with the merger"]
    # (1)
    cases = [gen_static(ctx.rng) for _ in range(ctx.n(300, 5000))]
    models = common.lean_batch([{"op": "c20_static", "ops": [[o, a] for o, a in c["ops"]]} for c in cases])
    for c, m in zip(cases, models):
        impl = run_static(c)
        res.case(c, sum(1 for o, _ in c["ops"] if o == "push") >= 2 and any(r.get("ok") is not None for r in impl[:-1]))
        res.count("part", "static")
        for a, b in zip(impl[:-1], m["results"]):
            mok = b.get("ok") * static_factor(c) if b.get("ok") is not None else None   # the model serves the publication itself
            if ("err" in a) != ("err" in b) or a.get("err") != b.get("err") or a.get("ok") != mok:
                res.diverge("static/push-pull", c, {"impl": impl, "model": m["results"]}, None)
                break
        o = oracle_static(c, impl)
        if o:
            res.fail(c, o[0], o[1])
    # (2)
    specs = [gen_pull_feedback(ctx.rng) if ctx.rng.random() < 0.12 else gen_pull(ctx.rng) for _ in range(ctx.n(200, 4000))]
    out = sc.run_cases(specs, res, [lambda s, i: oracle_pull(s, i)], exclude=lambda s, i: ("C01:" + c01.oracle(s, i)[2]) if (c01.oracle(s, i) and c01.oracle(s, i)[2]) else None)
    res.count("part", "pull", n=len(specs))
    # (3)
    cases = [gen_ws(ctx.rng) for _ in range(ctx.n(120, 2500))]
    impls = [run_ws(c) for c in cases]
    models = common.lean_batch([model_ws(c, i) for c, i in zip(cases, impls)])
    for c, impl, m in zip(cases, impls, models):
        memo_hit = len(c["csteps"]) == 2 and c["csteps"][0] == c["csteps"][1]
        res.case(c, memo_hit or len(c["pairs"]) > 1)
        res.count("part", "ws")
        res.count("ws_same_time_consumers", memo_hit)
        skip = impl["error"] is not None and len(set(c["csteps"])) > 1
        if any(p.get("nan") for p in c["pairs"]):
            skip = True   # NaN payloads: judged by the oracle only (the model computes with exact rationals)
            res.count("ws_nan_zero_weight")
        if not skip:
            if impl["error"] is not None:
                res.diverge("ws/requests", c, {"impl_error": impl.get("msg")}, None)
            else:
                names = {str(fm.UNITS.Unit(u)): u for u in UNITS}
                for (name, h, v, units), r in zip(impl["log"], m["results"]):
                    v = v * float(UNITS.get(names.get(units, ""), 1) / UNITS[c["pairs"][0]["units"]])  # in the first input's units
                    if "ok" not in r or not close(v, r["ok"][0] / r["ok"][1]):
                        res.diverge("ws/requests", c, {"impl": [name, h, v], "model": r}, None)
                        break
        else:
            res.count("excluded_other_property_finding", "C01:pull-fanout-eviction")
        o = oracle_ws(c, impl)
        if o:
            res.fail(c, o[0], o[1])
    run_wsgrid(ctx, res)


def run_wsgrid(ctx, res):
    """(4) WeightedSum on gridded fields with a grid of its own in another layout (engines/wsgrid.py)"""
    from . import wsgrid
    for _ in range(ctx.n(40, 600)):
        c = wsgrid.gen(ctx.rng)
        res.case(c, True)
        res.count("part", "wsgrid")
        res.count("wsgrid_own_grid", c["ws_layout"] is not None)
        o = wsgrid.oracle(c, wsgrid.run(c))
        if o:
            res.fail(c, o[0], o[1])


def search(ctx, res, divergences, broken):
    from . import wsgrid
    for _ in range(60):
        c = wsgrid.gen(ctx.rng)
        res.case(c, True)
        f = wsgrid.oracle(c, wsgrid.run(c))
        if f:
            res.fail(c, f[0], f[1])
            return
    for d in divergences:
        c = d.get("case") or {}
        f = judge(c)
        if f:
            res.fail(c, f[0], f[1])
            return
    for _ in range(ctx.n(2000, 10000)):
        c = ctx.rng.choice([gen_static, gen_pull, gen_ws])(ctx.rng)
        res.case(c, True)
        f = judge(c)
        if f:
            res.fail(c, f[0], f[1])
            return


def judge(c):
    part = c.get("part")
    if part == "static":
        return oracle_static(c, run_static(c))
    if part == "pull":
        impl = run_impl(c)
        k = c01.oracle(c, impl)
        if k and k[2]:
            return None
        return oracle_pull(c, impl)
    if part == "ws":
        return oracle_ws(c, run_ws(c))
    if part == "wsgrid":
        from . import wsgrid
        return wsgrid.oracle(c, wsgrid.run(c))
    return None


def replay(ctx, rp):
    case = rp.get("input") or (rp.get("diverging_case") or {}).get("case")
    f = judge(case)
    return {"fails": bool(f), "oracle": f}
