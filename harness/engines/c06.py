"""C06 — iterative connect converges or reports exactly the stuck components.

Correspondence: a *composition spec* (components with inputs/outputs whose infos are declared,
composed by transfer rules `FromInput`/`FromOutput`/`FromValue`, or passed to `try_connect` once some
own exchanges are done; initial pulls; data provided once some own exchanges are done; connector
cache on/off; start times; adapter chains on the links) is realised with harness subclasses of
`fm.TimeComponent` / `fm.Component` and run through the real `Composition.connect()` under several
listing orders, and through `Finam.Connect.connectE` of the Lean model.
Observables: status of every component after every `connect` call (wrapped `comp.connect`), the
None-patterns of `connector.in_infos / out_infos / in_data / infos_pushed / data_pushed`, the final
exception class and the component list of the circular-coupling message, the times passed to
`Output.push_data` during connect, the values of the initial pulls.
Oracle (independent of the Lean model): the least fixed point of the dependency rules is recomputed
from the spec in Python; success <=> everything derivable; on failure the reported list = listed
components with a non-derivable item; no component CONNECTED with an outstanding item; CONNECTING
<=> something new was exchanged in that call; nothing but the circular-coupling error is raised;
initial data published for the composition start and the producer's start; initial pulls deliver
the producer's initial value; the number of connect calls is bounded.
"""
import copy
import itertools
import logging
import re

import numpy as np

from .. import common
from . import pkginit, staticlink
from ..fmutil import limited, T, ad, err_class, fm, scalar, td, us

MODULES = ["Connect", "ConnectLemmas"]
GEN_OBLIGATIONS = []
H = 3_600_000_000  # one hour in microseconds
CACHE_KINDS = ["linear", "next", "prev", "step"]


class LoopGuard(Exception):
    """raised by the harness when the connect loop exceeds the proved iteration bound"""


# --------------------------------------------------------------------------------------
# spec helpers
# --------------------------------------------------------------------------------------
def n_items(spec):
    n = 0
    for cs in spec["comps"]:
        n += len(cs["ins"]) + 3 * len(cs["outs"]) + sum(1 for x in cs["ins"] if x["pull"])
    return n


def call_bound(spec):
    # iterations <= items + 2n + 1 (Lean: Finam.Connect.bound); each iteration calls <= n components
    n = len(spec["comps"])
    return (n_items(spec) + 2 * n + 1) * max(n, 1) + 1


def lref_item(c, r):
    k, i = r
    return {"in": ("inInfo", c, i), "out": ("outRead", c, i), "data": ("inData", c, i)}[k]


def refs_of(info):
    return info.get("refs", []) if info["k"] == "rule" else info.get("when", []) if info["k"] == "provided" else []


def fixpoint(spec):
    """least fixed point of the dependency rules, written directly from the property text:
    an in-info needs its own provision and the source's info; an out-info read-back needs the info
    and every consumer's exchange; data needs the out-info read back and the component's provision;
    an initial pull needs the in-info and the source's data."""
    comps = spec["comps"]
    universe = set()
    for c, cs in enumerate(comps):
        for i, x in enumerate(cs["ins"]):
            universe.add(("inInfo", c, i))
            if x["pull"]:
                universe.add(("inData", c, i))
        for o in range(len(cs["outs"])):
            universe |= {("outPushed", c, o), ("outRead", c, o), ("data", c, o)}
    consumers = {}
    for c, cs in enumerate(comps):
        for i, x in enumerate(cs["ins"]):
            consumers.setdefault(tuple(x["src"]), []).append((c, i))

    def pre(item):
        kind, c, k = item
        cs = comps[c]
        if kind == "inInfo":
            x = cs["ins"][k]
            return [lref_item(c, r) for r in refs_of(x["info"])] + [("outPushed",) + tuple(x["src"])]
        if kind == "outPushed":
            return [lref_item(c, r) for r in refs_of(cs["outs"][k]["info"])]
        if kind == "outRead":
            return [("outPushed", c, k)] + [("inInfo",) + t for t in consumers.get((c, k), [])]
        if kind == "data":
            return [lref_item(c, r) for r in cs["outs"][k]["dataWhen"]] + [("outPushed", c, k), ("outRead", c, k)]
        if kind == "inData":
            return [("inInfo", c, k), ("data",) + tuple(cs["ins"][k]["src"])]
        raise AssertionError(kind)

    done = set()
    changed = True
    while changed:
        changed = False
        for it in sorted(universe):
            if it not in done and all(p in done for p in pre(it)):
                done.add(it)
                changed = True
    stuck = sorted({it[1] for it in universe - done})
    return done, universe, stuck


# --------------------------------------------------------------------------------------
# harness components
# --------------------------------------------------------------------------------------
def _info(t):
    return fm.Info(time=t, grid=fm.NoGrid(), units="m")


def _rules(refs, t, tag=None):
    rules = []
    for n, (k, i) in enumerate(refs):
        cls = fm.tools.FromInput if k == "in" else fm.tools.FromOutput
        name = f"In{i}" if k == "in" else f"Out{i}"
        rules.append(cls(name) if n == 0 else cls(name, ["units"]))
    if not refs:
        rules += [fm.tools.FromValue("grid", fm.NoGrid()), fm.tools.FromValue("units", "m")]
    if tag is not None:
        rules.append(fm.tools.FromValue("tag", tag))   # a later rule writing a metadata field of the composed info
    rules.append(fm.tools.FromValue("time", t))
    return rules


class _NodeBase:
    def _setup(self, idx, cs):
        self.idx = idx
        self.cs = cs
        self.t0 = T(cs["start"])

    def _initialize(self):
        cs = self.cs
        in_rules, out_rules = {}, {}
        for i, x in enumerate(cs["ins"]):
            if x["info"]["k"] == "declared":
                self.inputs.add(name=f"In{i}", time=self.t0, grid=fm.NoGrid(), units="m")
            else:
                self.inputs.add(name=f"In{i}")
                if x["info"]["k"] == "rule":
                    in_rules[f"In{i}"] = _rules(x["info"]["refs"], self.t0, f"{self.idx}.in{i}" if x["info"].get("tag") else None)
        for o, y in enumerate(cs["outs"]):
            if y["info"]["k"] == "declared":
                self.outputs.add(name=f"Out{o}", time=self.t0, grid=fm.NoGrid(), units="m")
            else:
                self.outputs.add(name=f"Out{o}")
                if y["info"]["k"] == "rule":
                    out_rules[f"Out{o}"] = _rules(y["info"]["refs"], self.t0, f"{self.idx}.out{o}" if y["info"].get("tag") else None)
        self.create_connector(
            pull_data=[f"In{i}" for i, x in enumerate(cs["ins"]) if x["pull"]],
            in_info_rules=in_rules, out_info_rules=out_rules, cache=cs["cache"])

    def _holds(self, refs):
        con = self.connector
        for k, i in refs:
            if k == "in" and con.in_infos.get(f"In{i}") is None:
                return False
            if k == "out" and con.out_infos.get(f"Out{i}") is None:
                return False
            if k == "data" and con.in_data.get(f"In{i}") is None:
                return False
        return True

    def _connect(self, start_time):
        cs = self.cs
        ex, pi, pd = {}, {}, {}
        for i, x in enumerate(cs["ins"]):
            if x["info"]["k"] == "provided" and self._holds(x["info"]["when"]):
                ex[f"In{i}"] = _info(self.t0)
        for o, y in enumerate(cs["outs"]):
            if y["info"]["k"] == "provided" and self._holds(y["info"]["when"]):
                pi[f"Out{o}"] = _info(self.t0)
            if self._holds(y["dataWhen"]):
                # "refine": the component hands over a newer state in every connect call (the cache is overwritten: what
                # gets published is what was handed over last)
                self.calls = getattr(self, "calls", 0) + (1 if o == 0 else 0)
                pd[f"Out{o}"] = np.array(float(y["val"]) + (0.001 * self.calls if y.get("refine") else 0.0))
        before = {o: bool(self.connector.data_pushed[f"Out{o}"]) for o in range(len(cs["outs"]))}
        self.try_connect(start_time, exchange_infos=ex, push_infos=pi, push_data=pd)
        for o in range(len(cs["outs"])):
            if not before[o] and self.connector.data_pushed[f"Out{o}"] and f"Out{o}" in pd:
                pv = dict(getattr(self, "published_val", {}))
                pv[o] = float(pd[f"Out{o}"])
                self.published_val = pv

    def _validate(self):
        pass

    def _update(self):
        pass

    def _finalize(self):
        pass


class TNode(_NodeBase, fm.TimeComponent):
    def __init__(self, idx, cs):
        fm.TimeComponent.__init__(self)
        self._setup(idx, cs)
        self._time = self.t0

    def _next_time(self):
        return self.time + td(H)


class CNode(_NodeBase, fm.Component):
    def __init__(self, idx, cs):
        fm.Component.__init__(self)
        self._setup(idx, cs)


def make_adapter(a):
    k = a[0]
    if k == "pass":
        return ad.Scale(1.0)
    if k == "cache":
        ck = a[1] if len(a) > 1 else "linear"
        return {"linear": ad.LinearTime, "next": ad.NextTime, "prev": ad.PreviousTime, "step": ad.StepTime}[ck]()
    if k == "dfix":
        return ad.DelayFixed(td(a[1]))
    if k == "dpull":
        return ad.DelayToPull(steps=a[1], additional_delay=td(a[2]))
    if k == "dpush":
        return ad.DelayToPush()
    raise ValueError(k)


def _info_repr(info):
    """canonical content of an exchanged Info (C05 compares it across listing / linking orders)"""
    if info is None:
        return None
    return [None if info.time is None else us(info.time), type(info.grid).__name__ if info.grid is not None else None,
            None if info.units is None else str(info.units), sorted((k, str(v)) for k, v in info.meta.items() if k != "units")]


def _counts(con):
    return (sum(v is not None for v in con.in_infos.values())
            + sum(v is not None for v in con.out_infos.values())
            + sum(v is not None for v in con.in_data.values())
            + sum(bool(v) for v in con.infos_pushed.values())
            + sum(bool(v) for v in con.data_pushed.values()))


def _complete(con):
    return (all(v is not None for v in con.in_infos.values())
            and all(v is not None for v in con.out_infos.values())
            and all(v is not None for v in con.in_data.values())
            and all(con.infos_pushed.values()) and all(con.data_pushed.values()))


def run_impl(spec, order, link_order=None):
    """`link_order`: optional permutation of the (consumer, input) pairs giving the order in which the links are
    created (used by C05; default: by consumer, then input index)"""
    comps = spec["comps"]
    nodes = [(TNode if cs.get("time", True) else CNode)(c, cs).with_name(f"N{c}") for c, cs in enumerate(comps)]
    log, monitor, pushes = [], [], {}
    first_seen = {}   # (component, slot) -> (content when the exchange completed, the Info object)
    bound = call_bound(spec)

    def wrap_connect(node):
        orig = node.connect

        def wrapped(t):
            if len(log) >= bound:
                raise LoopGuard(f"more than {bound} connect calls")
            ping = node.status == fm.ComponentStatus.INITIALIZED
            before = _counts(node.connector)
            orig(t)
            con = node.connector
            for nm, v in list(con.in_infos.items()) + list(con.out_infos.items()):
                key = (node.idx, nm)
                if v is not None and key not in first_seen:
                    first_seen[key] = (_info_repr(v), v)
            after = _counts(node.connector)
            log.append([node.idx, node.status.name, after - before])
            monitor.append({"comp": node.idx, "status": node.status.name, "ping": ping,
                            "new": after - before, "complete": _complete(node.connector)})

        node.connect = wrapped

    def wrap_push(node, o, out):
        orig = out.push_data

        def wrapped(data, time):
            pushes.setdefault((node.idx, o), []).append(us(time))
            return orig(data, time)

        out.push_data = wrapped

    composition = fm.Composition([nodes[c] for c in order], print_log=False, log_level=logging.CRITICAL,
                                 slot_memory_location=None)
    for n in nodes:
        wrap_connect(n)
        for o in range(len(n.cs["outs"])):
            wrap_push(n, o, n.outputs[f"Out{o}"])
    pairs = [(c, i) for c, cs in enumerate(comps) for i in range(len(cs["ins"]))]
    if link_order is not None:
        pairs = [pairs[k] for k in link_order]
    shared = {}   # (component, output) -> the one pass-through adapter object that several inputs branch off
    for c, i in pairs:
        x = comps[c]["ins"][i]
        cur = nodes[x["src"][0]].outputs[f"Out{x['src'][1]}"]
        chain = list(reversed(x["chain"]))   # source -> consumer
        if x.get("shared") and chain and chain[0][0] == "pass":
            key = tuple(x["src"])
            if key not in shared:
                shared[key] = cur >> make_adapter(chain[0])
            cur = shared[key]
            chain = chain[1:]
        for a in chain:
            cur = cur >> make_adapter(a)
        cur >> nodes[c].inputs[f"In{i}"]
    outcome, err, names, msg = "ok", None, None, None
    try:
        limited(60, composition.connect, T(spec["start"]) if spec.get("explicit_start", True) else None)
    except LoopGuard as e:
        outcome, msg = "loop", str(e)
    except fm.FinamCircularCouplingError as e:
        msg = str(e)
        m = re.search(r"Unconnected components: \[(.*)\]", msg)
        if m:
            outcome = "circular"
            names = [int(s.strip()[1:]) for s in m.group(1).split(",") if s.strip()]
        else:
            outcome, err = "error", err_class(e)
    except Exception as e:  # noqa
        outcome, err, msg = "error", err_class(e), f"{type(e).__name__}: {str(e)[:200]}"
    drift = [{"slot": list(k), "when_exchanged": r0, "at_the_end": _info_repr(obj)}
             for k, (r0, obj) in first_seen.items() if _info_repr(obj) != r0]
    res = {"outcome": outcome, "err": err, "names": names, "msg": msg, "log": log, "monitor": monitor, "comps": [],
           "info_drift": drift}
    for n in nodes:
        con = n.connector
        cs = n.cs
        vals = []
        for i, x in enumerate(cs["ins"]):
            v = con.in_data.get(f"In{i}") if x["pull"] else None
            vals.append(None if v is None else scalar(v))
        res["comps"].append({
            "in_infos": [con.in_infos[f"In{i}"] is not None for i in range(len(cs["ins"]))],
            "out_infos": [con.out_infos[f"Out{o}"] is not None for o in range(len(cs["outs"]))],
            "in_data": [(con.in_data[f"In{i}"] is not None) if x["pull"] else None for i, x in enumerate(cs["ins"])],
            "infos_pushed": [bool(con.infos_pushed[f"Out{o}"]) for o in range(len(cs["outs"]))],
            "data_pushed": [bool(con.data_pushed[f"Out{o}"]) for o in range(len(cs["outs"]))],
            "published": [pushes.get((n.idx, o), []) for o in range(len(cs["outs"]))],
            "published_val": {str(o): v for o, v in getattr(n, "published_val", {}).items()},
            "held": [[us(t) for t, _d in n.outputs[f"Out{o}"].data] for o in range(len(cs["outs"]))],
            "values": vals,
            "info_repr": [[_info_repr(con.in_infos[f"In{i}"]) for i in range(len(cs["ins"]))],
                          [_info_repr(con.out_infos[f"Out{o}"]) for o in range(len(cs["outs"]))],
                          [_info_repr(n.inputs[f"In{i}"].info) for i in range(len(cs["ins"]))]],
        })
    return res


# --------------------------------------------------------------------------------------
# model
# --------------------------------------------------------------------------------------
def model_request(spec, order):
    return {"op": "c06", "start": spec["start"], "comps": spec["comps"], "order": order}


def compare(spec, impl, model):
    if impl["outcome"] != model["outcome"]:
        return {"what": "outcome", "impl": [impl["outcome"], impl["err"], impl["msg"]], "model": model["outcome"]}
    if impl["outcome"] == "error":
        if impl["err"] != model["err"]:
            return {"what": "error class", "impl": impl["err"], "model": model["err"]}
        ml = [[c, s] for c, s, _n in model["log"]]
        il = [[c, s] for c, s, _n in impl["log"]]
        if ml != il:
            return {"what": "statuses before the error", "impl": il, "model": ml}
        return None
    if impl["log"] != model["log"]:
        return {"what": "status / number of new exchanges after every connect call", "impl": impl["log"], "model": model["log"]}
    if impl["outcome"] == "circular" and impl["names"] != model["names"]:
        return {"what": "reported components", "impl": impl["names"], "model": model["names"]}
    for c, (ic, mc) in enumerate(zip(impl["comps"], model["comps"])):
        for key in ("in_infos", "out_infos", "in_data", "infos_pushed", "data_pushed"):
            if ic[key] != mc[key]:
                return {"what": f"{key} of component {c}", "impl": ic[key], "model": mc[key]}
        for o, (a, b) in enumerate(zip(ic["published"], mc["published"])):
            has_targets = any(tuple(x["src"]) == (c, o) for cs in spec["comps"] for x in cs["ins"])
            if has_targets and a != b:
                return {"what": f"publication times of output {c}.{o}", "impl": a, "model": b}
        for i, (a, b) in enumerate(zip(ic["values"], mc["values"])):
            if (a is None) != (b is None) or (a is not None and abs(round(a) - b) > 1e-9):   # (refined values: base + k / 1000)
                return {"what": f"initial pull value of input {c}.{i}", "impl": a, "model": b}
    return None


# --------------------------------------------------------------------------------------
# oracle
# --------------------------------------------------------------------------------------
def oracle(spec, order, impl):
    done, universe, stuck = fixpoint(spec)
    if impl["outcome"] == "loop":
        return ("connect() terminates (within items + 2*components + 1 iterations)", {"observed": impl["msg"]}, "no-termination")
    if impl["outcome"] == "error":
        return ("connect() raises nothing but the circular-coupling error",
                {"raised": impl["err"], "message": impl["msg"], "stuck_expected": stuck}, "foreign-error")
    if impl.get("info_drift"):
        return ("metadata that has been exchanged for a slot does not change afterwards",
                impl["info_drift"][0], "exchanged-info-changed")
    for m in impl["monitor"]:
        if m["status"] == "CONNECTED" and not m["complete"]:
            return ("a component is never CONNECTED while one of its exchanges is outstanding", m, "connected-incomplete")
        if m["status"] != "CONNECTED" and m["complete"] and not m["ping"]:
            return ("a component whose exchanges are complete is reported CONNECTED", m, "complete-not-connected")
        if not m["ping"] and m["status"] == "CONNECTING" and m["new"] == 0:
            return ("CONNECTING only when something new was exchanged in the call", m, "progress-without-new")
        if not m["ping"] and m["status"] == "CONNECTING_IDLE" and m["new"] > 0:
            return ("CONNECTING_IDLE only when nothing new was exchanged in the call", m, "new-without-progress")
    if not stuck:
        if impl["outcome"] != "ok":
            return ("all dependencies derivable (acyclic) => connect() succeeds",
                    {"outcome": impl["outcome"], "names": impl["names"]}, "spurious-circular")
    else:
        if impl["outcome"] != "circular":
            return ("blocked dependencies => FinamCircularCouplingError", {"outcome": impl["outcome"], "expected_stuck": stuck},
                    "missed-circular")
        exp = [c for c in order if c in stuck]
        if impl["names"] != exp:
            return ("the error lists exactly the components that cannot complete (in listing order)",
                    {"reported": impl["names"], "expected": exp}, "stuck-report")
    if impl["outcome"] == "ok":
        for c, cs in enumerate(spec["comps"]):
            ic = impl["comps"][c]
            if not all(ic["in_infos"]):
                return ("after success every input's metadata is exchanged", {"comp": c, "in_infos": ic["in_infos"]}, "in-info-missing")
            for i, (a, b) in enumerate(zip(ic["info_repr"][0], ic["info_repr"][2])):
                if a != b:
                    return ("the metadata the connector reports for an input is the metadata that input holds after the exchange",
                            {"comp": c, "input": i, "connector_in_info": a, "input_info": b}, "in-info-differs")
            for o, y in enumerate(cs["outs"]):
                has_targets = any(tuple(x["src"]) == (c, o) for cs2 in spec["comps"] for x in cs2["ins"])
                if not has_targets:
                    continue
                want = {spec["start"], cs["start"]}
                if not want <= set(ic["published"][o]):
                    return ("initial data published for the composition start and the producer's own start",
                            {"output": [c, o], "published": ic["published"][o], "wanted": sorted(want)}, "initial-data")
                if cs["start"] not in ic["held"][o]:
                    return ("the output holds the entry for the producer's start after connect",
                            {"output": [c, o], "held": ic["held"][o]}, "initial-data-held")
            # metadata composed by rules: "evaluated in the given order, later rules overwrite earlier ones" — the rule lists
            # of the harness end with the component's own time (and a tag), whatever the transfers before them carried
            for o, y in enumerate(cs["outs"]):
                r = ic["info_repr"][1][o]
                if y["info"]["k"] == "rule" and r is not None:
                    if r[0] != cs["start"]:
                        return ("metadata composed by rules: later rules overwrite earlier ones (the value rule for the time comes last)",
                                {"output": [c, o], "time": r[0], "last_rule_sets": cs["start"]}, "rule-order")
                    if y["info"].get("tag") and ["tag", f"{c}.out{o}"] not in [list(m) for m in r[3]]:
                        return ("metadata composed by rules: later rules overwrite earlier ones (the tag rule)",
                                {"output": [c, o], "meta": r[3]}, "rule-order")
            for i, x in enumerate(cs["ins"]):
                if x["pull"]:
                    want = spec["comps"][x["src"][0]]["outs"][x["src"][1]]["val"]
                    if spec["comps"][x["src"][0]]["outs"][x["src"][1]].get("refine"):
                        # the value that was handed over in the call in which the data were published
                        want = impl["comps"][x["src"][0]]["published_val"].get(str(x["src"][1]), want)
                    got = ic["values"][i]
                    if got is None or abs(got - want) > 1e-9:
                        return ("every requested initial pull delivers the producer's initial value",
                                {"input": [c, i], "got": got, "wanted": want}, "initial-pull-value")
    # items exchanged = least fixed point (both outcomes)
    for c, cs in enumerate(spec["comps"]):
        ic = impl["comps"][c]
        obs = {("inInfo", c, i) for i, b in enumerate(ic["in_infos"]) if b}
        obs |= {("outRead", c, o) for o, b in enumerate(ic["out_infos"]) if b}
        obs |= {("inData", c, i) for i, b in enumerate(ic["in_data"]) if b}
        obs |= {("outPushed", c, o) for o, b in enumerate(ic["infos_pushed"]) if b}
        obs |= {("data", c, o) for o, b in enumerate(ic["data_pushed"]) if b}
        exp = {it for it in done if it[1] == c}
        if obs != exp:
            return ("at the end exactly the derivable exchanges have happened",
                    {"comp": c, "extra": sorted(obs - exp), "missing": sorted(exp - obs)}, "not-least-fixed-point")
    return None


# --------------------------------------------------------------------------------------
# generator
# --------------------------------------------------------------------------------------
def gen_chain(rng):
    if rng.random() < 0.55:
        return []
    out = []
    for _ in range(rng.choice([1, 1, 2, 2, 3])):
        k = rng.choices(["pass", "cache", "dfix", "dpull", "dpush"], weights=[25, 30, 25, 15, 5])[0]
        if k == "pass":
            out.append(["pass"])
        elif k == "cache":
            out.append(["cache", rng.choice(CACHE_KINDS)])
        elif k == "dfix":
            out.append(["dfix", rng.choice([0, 1, 2, 5]) * H])
        elif k == "dpull":
            out.append(["dpull", rng.choice([1, 1, 2]), rng.choice([0, 0, 1, 2]) * H])
        else:
            out.append(["dpush"])
    return out


def gen_info(rng, c_nin, c_nout, self_kind, self_idx, declared_w=40):
    k = rng.choices(["declared", "rule", "provided"], weights=[declared_w, 30, 30])[0]
    if k == "declared":
        return {"k": "declared"}
    pool = [["in", i] for i in range(c_nin) if not (self_kind == "in" and i == self_idx)]
    pool += [["out", o] for o in range(c_nout) if not (self_kind == "out" and o == self_idx)]
    if rng.random() < 0.04:  # self reference: blocked by construction
        pool.append([self_kind, self_idx])
    if k == "rule":
        n = rng.choice([0, 1, 1, 2]) if pool else 0
        r = {"k": "rule", "refs": rng.sample(pool, min(n, len(pool)))}
        if rng.random() < 0.4:
            r["tag"] = True
        return r
    n = rng.choice([0, 0, 1, 2]) if pool else 0
    return {"k": "provided", "when": rng.sample(pool, min(n, len(pool)))}


def gen_random(rng):
    n = rng.choice([1, 2, 2, 3, 3, 3, 4, 4, 5])
    shape = []
    for _ in range(n):
        shape.append([rng.choice([0, 1, 1, 2]), rng.choice([0, 1, 1, 2])])
    if all(s[1] == 0 for s in shape):
        shape[rng.randrange(n)][1] = 1
    outs_all = [(c, o) for c in range(n) for o in range(shape[c][1])]
    starts = [rng.choice([0, 0, 0, 1, 3]) * H for _ in range(n)]
    kinds = [rng.random() < 0.85 for _ in range(n)]
    if not any(kinds):
        kinds[0] = True
    base = rng.choice([0, 0, 2]) * H
    tmin = min(s for s, k in zip(starts, kinds) if k)
    starts = [base + (s if k else max(s, tmin)) for s, k in zip(starts, kinds)]
    comps = []
    val = 1
    for c in range(n):
        nin, nout = shape[c]
        ins = []
        for i in range(nin):
            cands = [t for t in outs_all if t[0] != c] or outs_all
            if rng.random() < 0.05:
                cands = outs_all  # may be a self loop
            src = rng.choice(cands)
            ins.append({"src": list(src), "info": gen_info(rng, nin, nout, "in", i), "pull": rng.random() < 0.55,
                        "chain": gen_chain(rng)})
        outs = []
        for o in range(nout):
            pulls = [["data", i] for i, x in enumerate(ins) if x["pull"]]
            r = rng.random()
            if r < 0.5:
                dw = pulls
            elif r < 0.7:
                dw = []
            elif r < 0.85:
                dw = rng.sample(pulls, rng.randrange(len(pulls) + 1)) if pulls else []
            else:
                pool = [["in", i] for i in range(nin)] + [["out", k] for k in range(nout)] + [["data", i] for i in range(nin)]
                dw = rng.sample(pool, min(len(pool), rng.choice([1, 2])))
            outs.append({"info": gen_info(rng, nin, nout, "out", o), "dataWhen": dw, "val": val})
            if rng.random() < 0.3:
                outs[-1]["refine"] = True
            val += 1
        comps.append({"cache": rng.random() < 0.7, "start": starts[c], "time": kinds[c], "ins": ins, "outs": outs})
    return {"start": base + tmin, "explicit_start": rng.random() < 0.6, "comps": comps}


def gen_template(rng):
    """named shapes: chain, join, diamond, ring of pulls, ring of metadata rules, blocked pair"""
    kind = rng.choice(["chain", "join", "diamond", "pull_ring", "meta_ring", "blocked_pair", "value_ring"])
    n = {"chain": rng.choice([2, 3, 4]), "join": 3, "diamond": 4, "pull_ring": rng.choice([2, 3]),
         "meta_ring": rng.choice([2, 3]), "blocked_pair": 2, "value_ring": 2}[kind]
    starts = [rng.choice([0, 0, 1, 3]) * H for _ in range(n)]
    starts[rng.randrange(n)] = 0

    def comp(ins, outs, c):
        return {"cache": rng.random() < 0.7, "start": starts[c], "time": True, "ins": ins, "outs": outs}

    def inp(src, info=None, pull=True):
        return {"src": list(src), "info": info or rng.choice([{"k": "declared"}, {"k": "rule", "refs": []}, {"k": "provided", "when": []}]),
                "pull": pull, "chain": gen_chain(rng)}

    def out(info=None, dw=None, val=1):
        return {"info": info or rng.choice([{"k": "declared"}, {"k": "provided", "when": []}, {"k": "rule", "refs": []}]),
                "dataWhen": dw if dw is not None else [], "val": val}

    comps = []
    if kind == "chain":
        for c in range(n):
            ins = [inp((c - 1, 0), pull=rng.random() < 0.7)] if c > 0 else []
            o_info = rng.choice([None, {"k": "rule", "refs": [["in", 0]]}]) if c > 0 else None
            outs = [out(o_info, [["data", 0]] if ins and ins[0]["pull"] else [], c + 1)] if c < n - 1 else []
            comps.append(comp(ins, outs, c))
    elif kind == "join":
        comps = [comp([], [out(val=1)], 0), comp([], [out(val=2)], 1),
                 comp([inp((0, 0)), inp((1, 0), {"k": "rule", "refs": [["in", 0]]})], [], 2)]
    elif kind == "diamond":
        comps = [comp([], [out(val=1)], 0),
                 comp([inp((0, 0))], [out({"k": "rule", "refs": [["in", 0]]}, [["data", 0]], 2)], 1),
                 comp([inp((0, 0))], [out(None, [["data", 0]], 3)], 2),
                 comp([inp((1, 0)), inp((2, 0))], [], 3)]
    elif kind == "pull_ring":
        broken = rng.random() < 0.4  # one member does not wait for its pull: the ring resolves
        for c in range(n):
            dw = [] if (broken and c == 0) else [["data", 0]]
            comps.append(comp([inp(((c - 1) % n, 0))], [out(None, dw, c + 1)], c))
    elif kind == "meta_ring":
        broken = rng.random() < 0.4
        for c in range(n):
            o_info = {"k": "declared"} if (broken and c == 0) else {"k": "rule", "refs": [["in", 0]]}
            comps.append(comp([inp(((c - 1) % n, 0), pull=rng.random() < 0.5)], [out(o_info, [], c + 1)], c))
    elif kind == "blocked_pair":
        # input info derived from the own output's exchanged info (output -> input rule), which needs the consumer
        comps = [comp([inp((1, 0), {"k": "rule", "refs": [["out", 0]]}, pull=False)], [out(val=1)], 0),
                 comp([inp((0, 0), rng.choice([{"k": "declared"}, {"k": "rule", "refs": [["out", 0]]}]), pull=False)], [out(val=2)], 1)]
    else:  # value_ring: only FromValue rules, never blocked
        comps = [comp([inp((1, 0), {"k": "rule", "refs": []})], [out({"k": "rule", "refs": []}, [], 1)], 0),
                 comp([inp((0, 0), {"k": "rule", "refs": []})], [out({"k": "rule", "refs": []}, [], 2)], 1)]
    return {"start": 0, "explicit_start": rng.random() < 0.6, "comps": comps, "template": kind}


def gen_orders(rng, n, k):
    perms = list(itertools.permutations(range(n))) if n <= 4 else None
    if perms is not None and len(perms) <= k:
        return [list(p) for p in perms]
    out = [list(range(n)), list(range(n))[::-1]]
    while len(out) < k:
        p = list(range(n))
        rng.shuffle(p)
        if p not in out:
            out.append(p)
    return out[:k]


def corpus():
    h = H
    quirk = {"start": 0, "explicit_start": True, "comps": [
        {"cache": True, "start": 0, "time": True, "ins": [],
         "outs": [{"info": {"k": "provided", "when": []}, "dataWhen": [], "val": 1}]},
        {"cache": False, "start": 0, "time": True,
         "ins": [{"src": [0, 0], "info": {"k": "rule", "refs": []}, "pull": True, "chain": []}], "outs": []}]}
    f12 = {"start": 0, "explicit_start": True, "comps": [
        {"cache": True, "start": 3 * h, "time": True, "ins": [],
         "outs": [{"info": {"k": "declared"}, "dataWhen": [], "val": 7}]},
        {"cache": True, "start": 0, "time": True,
         "ins": [{"src": [0, 0], "info": {"k": "declared"}, "pull": True,
                  "chain": [["cache", "linear"], ["dfix", h]]}], "outs": []}]}
    ring = {"start": 0, "explicit_start": True, "comps": [
        {"cache": True, "start": 0, "time": True,
         "ins": [{"src": [1, 0], "info": {"k": "declared"}, "pull": True, "chain": []}],
         "outs": [{"info": {"k": "declared"}, "dataWhen": [["data", 0]], "val": 1}]},
        {"cache": True, "start": h, "time": True,
         "ins": [{"src": [0, 0], "info": {"k": "declared"}, "pull": True, "chain": []}],
         "outs": [{"info": {"k": "declared"}, "dataWhen": [["data", 0]], "val": 2}]},
        {"cache": True, "start": 0, "time": True, "ins": [],
         "outs": []}]}
    return [quirk, f12, ring]


# --------------------------------------------------------------------------------------
# engine interface
# --------------------------------------------------------------------------------------
def share_pass(rng, spec):
    """with some probability the inputs that read one output branch off a *single* pass-through adapter object
    (out >> scale; scale >> in1; scale >> in2) instead of having one adapter chain each"""
    by_src = {}
    for cs in spec["comps"]:
        for x in cs["ins"]:
            by_src.setdefault(tuple(x["src"]), []).append(x)
    for xs in by_src.values():
        if len(xs) >= 2 and rng.random() < 0.5:
            for x in xs:
                x["chain"] = list(x["chain"]) + [["pass"]]   # chains are listed consumer -> source
                x["shared"] = True
    return spec


def is_nontrivial(spec):
    comps = spec["comps"]
    return len(comps) >= 2 and any(
        x["info"]["k"] != "declared" or x["pull"] for cs in comps for x in cs["ins"])


def check_spec(spec, orders, res, do_model=True):
    reqs = [model_request(spec, o) for o in orders]
    models = common.lean_batch(reqs) if do_model else [None] * len(orders)
    _done, _uni, stuck = fixpoint(spec)
    res.count("components", len(spec["comps"]))
    res.count("expected", "blocked" if stuck else "acyclic")
    res.count("template", spec.get("template", "random"))
    for cs in spec["comps"]:
        res.count("cache", cs["cache"])
        for x in cs["ins"]:
            res.count("in_info_kind", x["info"]["k"])
            for a in x["chain"]:
                res.count("adapters", a[0])
        for y in cs["outs"]:
            res.count("out_info_kind", y["info"]["k"])
    if len({cs["start"] for cs in spec["comps"]}) > 1:
        res.count("start_times_differ")
    for order, m in zip(orders, models):
        case = dict(spec)
        case["order"] = order
        impl = run_impl(spec, order)
        res.case(case, is_nontrivial(spec))
        res.count("outcome", impl["outcome"])
        res.count("connect_calls", n=len(impl["log"]))
        if m is not None:
            if m["outcome"] == "outOfFuel":
                raise common.MachineryError("model contradicts its own theorem loop_terminates")
            d = compare(spec, impl, m)
            if d:
                res.diverge("connect/" + d["what"].split(" of ")[0], case, d, {k: m.get(k) for k in ("outcome", "names", "err")})
        o = oracle(spec, order, impl)
        if o:
            res.fail(case, o[0], o[1], signature=None)
            res.count("oracle_failure_kind", o[2])


def gen_case(rng):
    return gen_template(rng) if rng.random() < 0.3 else gen_random(rng)


def run(ctx, res):
    res.rule = ("composition specs: 1-5 components (TimeComponent / Component), 0-2 inputs and outputs each, every "
                "info declared / composed by transfer rules (FromInput, FromOutput, FromValue only) / passed to try_connect "
                "once chosen own exchanges are done, initial pulls, data provided once chosen own exchanges are done, "
                "connector cache on/off, start times 0/1h/3h after the composition start, links through chains of 0-3 "
                "adapters (Scale, Linear/Next/Previous/StepTime, DelayFixed, DelayToPull, DelayToPush); 30% named shapes "
                "(chain, join, diamond, ring of pulls, ring of metadata rules, blocked pair, value ring); every spec under "
                "all listing orders up to 3 components, 4-6 orders beyond; non-trivial = at least two components and an "
                "info that is not declared or an initial pull; distinct by canonical hash of spec + order")
    res.assumptions = [
        "harness components provide an info/data in every call in which its condition holds (conditions are conjunctions of the component's own completed exchanges)",
        "composition start = earliest component start; delays of delay adapters are non-negative",
        "push-based outputs only in the modelled part (callback outputs belong to C20; static links: oracle-only part engines/staticlink.py)",
    ]
    for spec in corpus():
        n = len(spec["comps"])
        check_spec(spec, gen_orders(ctx.rng, n, 6), res)
    budget = ctx.n(230, 3000)
    for _ in range(budget):
        spec = share_pass(ctx.rng, gen_case(ctx.rng))
        n = len(spec["comps"])
        k = 6 if n <= 3 else ctx.n(4, 8)
        check_spec(spec, gen_orders(ctx.rng, n, k), res)
    # static links (engines/staticlink.py): a static producer and its static readers, every listing order
    for _ in range(ctx.n(30, 300)):
        c = staticlink.gen(ctx.rng)
        res.case(c, True)
        res.count("part", "static-link")
        o = staticlink.check(c)
        if o:
            res.fail(c, o[0], o[1], None)
    # the package's own generators starting later than the composition (engines/pkginit.py)
    for _ in range(ctx.n(30, 300)):
        c = pkginit.gen(ctx.rng)
        res.case(c, True)
        res.count("part", "package-generator-initial-data")
        o = pkginit.oracle(c, pkginit.run(c))
        if o:
            res.fail(c, o[0], o[1], None)


def search(ctx, res, divergences, broken):
    for _ in range(40):
        c = pkginit.gen(ctx.rng)
        res.case(c, True)
        o = pkginit.oracle(c, pkginit.run(c))
        if o:
            res.fail(c, o[0], o[1], None)
            return
    for _ in range(60):
        c = staticlink.gen(ctx.rng)
        res.case(c, True)
        o = staticlink.check(c)
        if o:
            res.fail(c, o[0], o[1], None)
            return
    specs = []
    for d in divergences:
        if d.get("case"):
            c = dict(d["case"])
            order = c.pop("order", None)
            specs.append((c, [order] if order else None))
    for _ in range(ctx.n(600, 5000)):
        specs.append((share_pass(ctx.rng, gen_case(ctx.rng)), None))
    for spec, orders in specs:
        n = len(spec["comps"])
        check_spec(spec, orders or gen_orders(ctx.rng, n, 6), res, do_model=False)
        if res.failures:
            return


def _fails(case):
    spec = dict(case)
    order = spec.pop("order")
    try:
        impl = run_impl(spec, order)
        return oracle(spec, order, impl)
    except Exception:  # noqa
        return None


def shrink(ctx, f):
    if f["case"].get("part") in ("staticlink", "pkginit"):
        return f
    case = copy.deepcopy(f["case"])
    best = _fails(case)
    if not best:
        return f

    def attempt(trial):
        nonlocal case, best
        o = _fails(trial)
        if o and o[2] == best[2]:  # same clause of the property
            case, best = trial, o
            return True
        return False

    changed = True
    while changed:
        changed = False
        comps = case["comps"]
        # simplify links and infos
        for c, cs in enumerate(comps):
            for i, x in enumerate(cs["ins"]):
                for j in range(len(x["chain"])):
                    t = copy.deepcopy(case)
                    del t["comps"][c]["ins"][i]["chain"][j]
                    if attempt(t):
                        changed = True
                        break
                if changed:
                    break
                if x["info"]["k"] != "declared":
                    t = copy.deepcopy(case)
                    t["comps"][c]["ins"][i]["info"] = {"k": "declared"}
                    if attempt(t):
                        changed = True
                        break
            if changed:
                break
            for o_, y in enumerate(cs["outs"]):
                if y["info"]["k"] != "declared":
                    t = copy.deepcopy(case)
                    t["comps"][c]["outs"][o_]["info"] = {"k": "declared"}
                    if attempt(t):
                        changed = True
                        break
            if changed:
                break
            if cs["start"] != case["start"]:
                t = copy.deepcopy(case)
                t["comps"][c]["start"] = case["start"]
                if attempt(t):
                    changed = True
                    break
        if changed:
            continue
        # drop an output nobody uses, or a component without links
        for c, cs in enumerate(comps):
            used = any(x["src"][0] == c for cs2 in comps for x in cs2["ins"])
            if not used and not cs["ins"] and len(comps) > 1:
                t = copy.deepcopy(case)
                del t["comps"][c]
                for cs2 in t["comps"]:
                    for x in cs2["ins"]:
                        if x["src"][0] > c:
                            x["src"][0] -= 1
                t["order"] = [k - (1 if k > c else 0) for k in case["order"] if k != c]
                if attempt(t):
                    changed = True
                    break
    return {"case": case, "required": best[0], "observed": best[1], "signature": f.get("signature")}


def replay(ctx, rp):
    case = rp.get("input") or (rp.get("diverging_case") or {}).get("case")
    if case.get("part") == "staticlink":
        o = staticlink.check(case)
        return {"fails": bool(o), "oracle": o}
    if case.get("part") == "pkginit":
        o = pkginit.oracle(case, pkginit.run(case))
        return {"fails": bool(o), "oracle": o}
    spec = dict(case)
    order = spec.pop("order")
    impl = run_impl(spec, order)
    o = oracle(spec, order, impl)
    m = common.lean_batch([model_request(spec, order)])[0]
    impl_small = {k: impl[k] for k in ("outcome", "err", "names", "msg", "log", "comps")}
    return {"fails": bool(o), "oracle": o, "impl": impl_small, "model": m, "correspondence": compare(spec, impl, m)}
