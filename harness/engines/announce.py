"""The component contract the scheduler model assumes, checked on the package's own time-stepped components: the time a
component announces (`next_time`) before an update is the time it then moves to and the time it requests from its
sources in that update (the `time now next` record of `Finam.Comp`).  Steps are `timedelta`s and calendar steps
(`relativedelta` months / years) from start days where a running sum and a multiple of the step differ (29-31 of a
month, Feb 29)."""
import datetime as dt
import os
import tempfile

import numpy as np
from dateutil.relativedelta import relativedelta

import finam as fm

from ..fmutil import limited

KINDS = ["callback", "consumer", "writer", "generator", "trigger"]
STEPS = [["days", 1], ["days", 2], ["days", 7], ["hours", 36], ["months", 1], ["months", 1], ["months", 3], ["years", 1],
         ["milliseconds", 400], ["microseconds", 1500], ["seconds", 90]]   # sub-second steps: times keep their microseconds
STARTS = [[2000, 1, 1], [2000, 1, 15], [2000, 1, 28], [2000, 1, 29], [2000, 1, 30], [2000, 1, 31], [2000, 2, 29],
          [2001, 5, 31], [1999, 12, 31], [2000, 8, 31]]


def gen(rng):
    if rng.random() < 0.3:
        # calendar steps from a day of month that a shorter month clamps (a running sum and a multiple of the step differ),
        # on every kind of component
        return {"part": "announce", "comp": rng.choice(KINDS), "step": rng.choice([["months", 1], ["months", 1], ["months", 3], ["years", 1]]),
                "start": rng.choice([[2000, 1, 29], [2000, 1, 30], [2000, 1, 31], [2000, 2, 29], [2001, 5, 31], [1999, 12, 31], [2000, 8, 31]]),
                "updates": rng.randint(2, 9), "src_step_days": rng.choice([1, 1, 2, 5]), "late_days": 0,
                "end_extra_us": rng.choice([0, 0, 1]), "src_div": None}
    return {"part": "announce", "comp": rng.choice(KINDS), "step": rng.choice(STEPS), "start": rng.choice(STARTS),
            "updates": rng.randint(2, 9), "src_step_days": rng.choice([1, 1, 2, 5]),
            "late_days": rng.choice([0, 0, 0, 2, 3]),   # the component may start later than the composition (its source)
            "end_extra_us": rng.choice([0, 0, 1, 400, 999]),
            # the source's step may be a day divided by 7, 11, 13, ...: its multiples fall a few microseconds short of the day
            "src_div": rng.choice([None, None, 7, 11, 13, 19])}  # the end time may lie a few microseconds behind a point of the step grid


def _step(s):
    return relativedelta(**{s[0]: s[1]}) if s[0] in ("months", "years") else dt.timedelta(**{s[0]: s[1]})


def run(case):
    start0 = dt.datetime(*case["start"])
    start = start0 + dt.timedelta(days=case.get("late_days", 0))
    step = _step(case["step"])
    info = fm.Info(time=None, grid=fm.NoGrid(), units="")
    src_step = dt.timedelta(days=case["src_step_days"])
    if case.get("src_div"):
        src_step = dt.timedelta(days=1) / case["src_div"]
    if case["step"][0] in ("milliseconds", "microseconds", "seconds"):
        src_step = step                      # (a source on the same fine clock; no day-long head start to walk through)
        start = start0
    src = fm.components.CallbackGenerator({"Out": (lambda t: float(t.toordinal()), info)}, start0, src_step)
    k = case["comp"]
    tmp = None
    if k == "callback":
        c = fm.components.CallbackComponent(inputs={"In": fm.Info(time=None, grid=None, units=None)}, outputs={"Out": info},
                                            callback=lambda inp, t: {"Out": inp["In"]}, start=start, step=step)
    elif k == "consumer":
        c = fm.components.DebugConsumer({"In": fm.Info(time=None, grid=None, units=None)}, start=start, step=step)
    elif k == "writer":
        tmp = tempfile.mkdtemp(prefix="finam_verif_")
        c = fm.components.CsvWriter(os.path.join(tmp, "w.csv"), start, step, ["In"])
    elif k == "trigger":
        c = fm.components.TimeTrigger(in_info=fm.Info(time=None, grid=None, units=None), start=start, step=step)
    else:
        c = fm.components.CallbackGenerator({"Out": (lambda t: 1.0, info)}, start, step)
    log = []
    orig = c.update

    budget = [40 * case["updates"] + 200]

    def update():
        budget[0] -= 1
        if budget[0] < 0:
            raise RuntimeError("the run does not come to an end: far more updates than the end time allows")
        ann = c.next_time
        log.append(["announced", ann])
        orig()
        log.append(["moved_to", c.time])

    c.update = update
    comps = [src, c]
    comp = fm.Composition(comps, log_level="ERROR")
    if k != "generator":
        out = src.outputs["Out"]
        orig_get = out.get_data

        def get_data(time, target):
            log.append(["requested", time])
            return orig_get(time, target)

        out.get_data = get_data
        out >> c.inputs["In"]
    res = {"error": None}
    try:
        limited(30, comp.connect, start0)
        del log[:]           # the connect phase pulls at the start time
        end = start
        for _ in range(case["updates"]):
            end = end + step
        end = end + dt.timedelta(microseconds=case.get("end_extra_us", 0))
        res["end"] = end.isoformat()
        limited(30, comp.run, end_time=end)
        res["final"] = [x.time.isoformat() for x in comps]
    except Exception as e:  # noqa
        res["error"] = f"{type(e).__name__}: {str(e)[:200]}"
    finally:
        if tmp:
            import shutil
            shutil.rmtree(tmp, ignore_errors=True)
    res["log"] = [[a, b.isoformat() if b is not None else None] for a, b in log]
    return res


def oracle(case, impl):
    if impl["error"]:
        return ("a composition of the package's own components with calendar or fixed steps runs", {"error": impl["error"]})
    late = [t for t in impl.get("final", []) if t < impl["end"]]
    if late:
        return ("run(end_time) returns with every time-stepped component at or beyond end_time",
                {"end_time": impl["end"], "component_times": impl["final"]})
    ann = None
    n = 0
    for what, t in impl["log"]:
        if what == "announced":
            ann = t
            n += 1
        elif ann is not None and t != ann:
            return ("the time a component announces before an update is the time it requests from its sources and moves to "
                    "in that update (what the driver checked is what is pulled)",
                    {"announced": ann, what: t, "update": n})
        if what == "moved_to":
            ann = None
    return None
