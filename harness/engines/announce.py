"""The component contract the scheduler model assumes, checked on the package's own time-stepped components: the time a
component announces (`next_time`) before an update is the time it then moves to and the time it requests from its
sources in that update (the `time now next` record of `Finam.Comp`).  Steps are `timedelta`s and calendar steps
(`relativedelta` months / years) from start days where a running sum and a multiple of the step differ (29-31 of a
month, Feb 29)."""
import datetime as dt
import os
import tempfile

import numpy as np
from dateutil.relativedelta import relativedelta

import finam as fm

KINDS = ["callback", "consumer", "writer", "generator", "trigger"]
STEPS = [["days", 1], ["days", 2], ["days", 7], ["hours", 36], ["months", 1], ["months", 1], ["months", 3], ["years", 1]]
STARTS = [[2000, 1, 1], [2000, 1, 15], [2000, 1, 28], [2000, 1, 29], [2000, 1, 30], [2000, 1, 31], [2000, 2, 29],
          [2001, 5, 31], [1999, 12, 31], [2000, 8, 31]]


def gen(rng):
    return {"part": "announce", "comp": rng.choice(KINDS), "step": rng.choice(STEPS), "start": rng.choice(STARTS),
            "updates": rng.randint(2, 9), "src_step_days": rng.choice([1, 1, 2, 5])}


def _step(s):
    return relativedelta(**{s[0]: s[1]}) if s[0] in ("months", "years") else dt.timedelta(**{s[0]: s[1]})


def run(case):
    start = dt.datetime(*case["start"])
    step = _step(case["step"])
    info = fm.Info(time=None, grid=fm.NoGrid(), units="")
    src = fm.components.CallbackGenerator({"Out": (lambda t: float(t.toordinal()), info)}, start, dt.timedelta(days=case["src_step_days"]))
    k = case["comp"]
    tmp = None
    if k == "callback":
        c = fm.components.CallbackComponent(inputs={"In": fm.Info(time=None, grid=None, units=None)}, outputs={"Out": info},
                                            callback=lambda inp, t: {"Out": inp["In"]}, start=start, step=step)
    elif k == "consumer":
        c = fm.components.DebugConsumer({"In": fm.Info(time=None, grid=None, units=None)}, start=start, step=step)
    elif k == "writer":
        tmp = tempfile.mkdtemp(prefix="finam_verif_")
        c = fm.components.CsvWriter(os.path.join(tmp, "w.csv"), start, step, ["In"])
    elif k == "trigger":
        c = fm.components.TimeTrigger(in_info=fm.Info(time=None, grid=None, units=None), start=start, step=step)
    else:
        c = fm.components.CallbackGenerator({"Out": (lambda t: 1.0, info)}, start, step)
    log = []
    orig = c.update

    def update():
        ann = c.next_time
        log.append(["announced", ann])
        orig()
        log.append(["moved_to", c.time])

    c.update = update
    comps = [src, c]
    comp = fm.Composition(comps, log_level="ERROR")
    if k != "generator":
        out = src.outputs["Out"]
        orig_get = out.get_data

        def get_data(time, target):
            log.append(["requested", time])
            return orig_get(time, target)

        out.get_data = get_data
        out >> c.inputs["In"]
    res = {"error": None}
    try:
        comp.connect(start)
        del log[:]           # the connect phase pulls at the start time
        end = start
        for _ in range(case["updates"]):
            end = end + step
        comp.run(end_time=end)
    except Exception as e:  # noqa
        res["error"] = f"{type(e).__name__}: {str(e)[:200]}"
    finally:
        if tmp:
            import shutil
            shutil.rmtree(tmp, ignore_errors=True)
    res["log"] = [[a, b.isoformat() if b is not None else None] for a, b in log]
    return res


def oracle(case, impl):
    if impl["error"]:
        return ("a composition of the package's own components with calendar or fixed steps runs", {"error": impl["error"]})
    ann = None
    n = 0
    for what, t in impl["log"]:
        if what == "announced":
            ann = t
            n += 1
        elif ann is not None and t != ann:
            return ("the time a component announces before an update is the time it requests from its sources and moves to "
                    "in that update (what the driver checked is what is pulled)",
                    {"announced": ann, what: t, "update": n})
        if what == "moved_to":
            ann = None
    return None
