"""C06 on the package's own generator: a `CallbackGenerator` that starts later than the composition publishes its initial
data for the composition's start time *and* for its own start time, and both carry the producer's initial value — the
value of its callback at its own start.  The consumer's initial pull (made for the composition start) delivers that value.
Oracle only (real components)."""
import datetime as dt

import numpy as np

import finam as fm

from ..fmutil import limited

T0 = dt.datetime(2000, 1, 1)
DAY = dt.timedelta(days=1)


def gen(rng):
    if rng.random() < 0.4:
        # generator >> TimeTrigger (start and output metadata taken from its input) >> consumer: an acyclic chain, any listing
        return {"part": "pkginit", "chain": "trigger", "order": rng.sample([0, 1, 2], 3), "late": rng.choice([0, 0, 1, 2]),
                "cons_step": rng.choice([1, 2])}
    return {"part": "pkginit", "late": rng.choice([0, 1, 2, 5]), "cons_step": rng.choice([1, 2, 3]), "order_flip": rng.random() < 0.5,
            "static": rng.random() < 0.2}


def value(t):
    return 10.0 * (t - T0).days + 1.0


def run_chain(case):
    got = []
    try:
        ts = T0 + case["late"] * DAY
        src = fm.components.CallbackGenerator({"Out": (value, fm.Info(time=None, grid=fm.NoGrid(), units="m"))}, start=ts, step=DAY)
        trig = fm.components.TimeTrigger(in_info=fm.Info(time=None, grid=None, units=None), start=None, step=DAY, start_from_input=True)
        sink = fm.components.DebugConsumer({"In": fm.Info(time=None, grid=None, units=None)}, start=ts, step=case["cons_step"] * DAY,
                                           callbacks={"In": lambda n, d, t: got.append(((t - T0).days, float(np.asarray(fm.data.get_magnitude(d)).reshape(-1)[0])))})
        comps = [src, trig, sink]
        comp = fm.Composition([comps[k] for k in case["order"]])
        src.outputs["Out"] >> trig.inputs["In"]
        trig.outputs["Out"] >> sink.inputs["In"]
        limited(60, comp.connect, ts)
        return {"initial": list(got), "status": [str(c.status) for c in comps]}
    except Exception as e:  # noqa
        return {"err": type(e).__name__, "msg": str(e)[:200]}


def oracle_chain(case, impl):
    if "err" in impl:
        return ("connect() of an acyclic chain generator >> TimeTrigger >> consumer ends with every component connected, in every listing order",
                {"error": impl["err"], "msg": impl["msg"], "order": case["order"]})
    want = value(T0 + case["late"] * DAY)
    if not impl["initial"] or abs(impl["initial"][0][1] - want) > 1e-9:
        return ("every requested initial pull delivers the producer's initial value (through a TimeTrigger)",
                {"initial_pull": impl["initial"][:1], "initial_value": want})
    return None


def run(case):
    if case.get("chain") == "trigger":
        return run_chain(case)
    got = []
    try:
        ts = T0 + case["late"] * DAY
        if case["static"]:
            src = fm.components.StaticCallbackGenerator({"Out": (lambda: 7.0, fm.Info(time=None, grid=fm.NoGrid(), units="m"))})
        else:
            src = fm.components.CallbackGenerator({"Out": (value, fm.Info(time=None, grid=fm.NoGrid(), units="m"))}, start=ts, step=DAY)
        sink = fm.components.DebugConsumer({"In": fm.Info(time=None, grid=fm.NoGrid(), units="m")}, start=T0, step=case["cons_step"] * DAY,
                                           callbacks={"In": lambda n, d, t: got.append(((t - T0).days, float(np.asarray(fm.data.get_magnitude(d)).reshape(-1)[0])))})
        comp = fm.Composition([sink, src] if case["order_flip"] else [src, sink])
        src.outputs["Out"] >> sink.inputs["In"]
        limited(60, comp.connect, T0)
        held = [(None if t is None else (t - T0).days, float(np.asarray(fm.data.get_magnitude(src.outputs["Out"]._unpack(d))).reshape(-1)[0]))
                for t, d in src.outputs["Out"].data]
        return {"held": held, "initial": list(got)}
    except Exception as e:  # noqa
        return {"err": type(e).__name__, "msg": str(e)[:200]}


def oracle(case, impl):
    if case.get("chain") == "trigger":
        return oracle_chain(case, impl)
    if "err" in impl:
        return ("connect() of a generator and a consumer completes", {"error": impl["err"], "msg": impl["msg"]})
    if case["static"]:
        want_times, want_val = [None], 7.0
    else:
        want_times = sorted({0, case["late"]})
        want_val = value(T0 + case["late"] * DAY)
    times = [t for t, _v in impl["held"]]
    if times != want_times:
        return ("initial data are published for the composition start time as well as the producer's own start time when they differ",
                {"published_for_days": times, "expected": want_times})
    bad = [(t, v) for t, v in impl["held"] if abs(v - want_val) > 1e-9]
    if bad:
        return ("every publication of the connect phase carries the producer's initial value (its state at its own start)",
                {"publication_day": bad[0][0], "value": bad[0][1], "initial_value": want_val})
    if not impl["initial"] or abs(impl["initial"][0][1] - want_val) > 1e-9:
        return ("every requested initial pull delivers the producer's initial value",
                {"initial_pull": impl["initial"][:1], "initial_value": want_val})
    return None
