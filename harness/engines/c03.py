"""C03 — a run terminates, reaches the end time, and walks each life cycle once.

Correspondence: update sequence / final times of the real run vs `Finam.runLoop` (end times on and off
the step grids, DAGs and delay-resolved rings).  Oracle on the implementation: run() returns; every
time component ends at or beyond end_time; times strictly increase per component; for end > start
no update happens once all time components have reached end_time; each component's call log is
initialize connect+ validate update* finalize and it ends FINALIZED; every adapter is finalized
exactly once."""
import re

from . import sched_common as sc
from . import c01
from . import notime
from . import announce
from .. import common
from ..schedlib import model_request, run_impl

MODULES = sc.MODULES + ["Lifecycle", "Props.C02", "Props.C04", "Props.C05Run", "Props.C03Run"]
GEN_OBLIGATIONS = sc.GEN_OBLIGATIONS + ["status_enum"]
THEOREM_DEPS = ["C03Run"]

LC = re.compile(r"^i(c+)v(u*)f$")
SIG_FIN = "finished-status-overwritten"


def oracle(spec, impl):
    # a component that declared itself FINISHED makes no further step
    done = set()
    for e in impl["events"]:
        if e[0] == "finished":
            done.add(e[1])
        elif e[0] == "update" and e[1] in done:
            return ("a component that has declared itself FINISHED is not updated again (the run ends with every "
                    "component at or beyond end_time or finished)", {"component": e[1], "updated_to": e[2]}, SIG_FIN)
    if impl["error"] is not None:
        return ("run(end_time) of a valid composition returns", {"error": impl["error"], "msg": impl.get("msg"), "phase": impl["phase"]}, None)
    end = spec["end"]
    tcs = [i for i, c in enumerate(spec["comps"]) if c["kind"] == "time"]
    for c in tcs:
        if impl["final"][c] < end:
            return ("every time-stepped component ends at or beyond end_time", {"component": c, "final": impl["final"][c], "end": end}, None)
    times = {c: spec["comps"][c]["start"] for c in tcs}
    start = min(times.values())
    for k, (u, t) in enumerate(impl["updates"]):
        if end > start and all(v >= end for v in times.values()):
            return ("no update is performed once all time-stepped components have reached end_time",
                    {"update_index": k, "update": [u, t], "times": dict(times)}, None)
        if not t > times[u]:
            return ("each component's time strictly increases from update to update", {"update": [u, t], "before": times[u]}, None)
        times[u] = t
    for c, calls in impl["calls"].items():
        s = "".join({"initialize": "i", "connect": "c", "validate": "v", "update": "u", "finalize": "f"}[x] for x in calls)
        # harness components log `connect` inside _connect; the first driver call is the ping phase (no _connect)
        if not LC.match(s):
            return ("each component sees initialize, connect+, validate, update*, finalize in that order", {"component": c, "calls": s}, None)
    if any(st != "FINALIZED" for st in impl["status"]):
        return ("every component ends in the finalized state", {"status": impl["status"]}, None)
    if any(n != 1 for n in impl["fin_counts"]):
        return ("every adapter on a link is finalized exactly once", {"finalize_counts": impl["fin_counts"]}, None)
    return None


def gen(ctx):
    r = ctx.rng.random()
    if r < 0.6:
        s = sc.gen_dag(ctx.rng, kinds=["scale", "lin", "step", "next", "prev", "dfix", "dpull", "sum"])
    else:
        s = sc.gen_ring(ctx.rng, resolved=True)
    if r < 0.6 and ctx.rng.random() < 0.3:
        s = sc.add_branching_adapter(ctx.rng, s)   # a pass-through adapter with two targets (finalized once?)
    if ctx.rng.random() < 0.15:
        # a component without any coupling slot (no input, no output): it still walks the whole life cycle
        s["comps"].append({"kind": "time", "start": ctx.rng.choice([0, 0, 1]), "steps": [ctx.rng.choice([1, 2, 3])]})
        s["order"].insert(ctx.rng.randrange(len(s["order"]) + 1), len(s["comps"]) - 1)
    if ctx.rng.random() < 0.06:
        # one component declares itself FINISHED before the end time (recorded finding: the status does not survive)
        tcs = [c for c in s["comps"] if c["kind"] == "time"]
        c = ctx.rng.choice(tcs)
        c["finish_at"] = c["start"] + ctx.rng.randint(1, max(2, s["end"] // 2))
    tcs = [c for c in s["comps"] if c["kind"] == "time"]
    if len(tcs) >= 2 and ctx.rng.random() < 0.2:
        # one component only learns its time during connect (the composition's start comes from the others)
        # and it starts at the composition's start time, like `TimeTrigger(start=None)` does
        late = ctx.rng.choice(tcs)
        late["late_time"] = True
        late["start"] = min(c["start"] for c in tcs if c is not late)
    if ctx.rng.random() < 0.2:
        starts = [c["start"] for c in s["comps"] if c["kind"] == "time"]
        s["end"] = min(starts) + ctx.rng.choice([0, 1])  # end at / just after the start
    return s


def c01_known(spec, impl):
    f = c01.oracle(spec, impl)
    return ("C01:" + f[2]) if (f and f[2] is not None) else None


def corpus():
    return [
        {"comps": [{"kind": "time", "start": 0, "steps": [2]}, {"kind": "time", "start": 1, "steps": [3]}],
         "links": [{"src": 0, "out": 0, "dst": 1, "ads": [["lin"]]}], "order": [1, 0], "end": 7},
        {"comps": [{"kind": "time", "start": 0, "steps": [2]}, {"kind": "time", "start": 0, "steps": [5]}],
         "links": [{"src": 0, "out": 0, "dst": 1, "ads": [["scale"], ["prev"]]}], "order": [0, 1], "end": 0},
        # adapters that fan out: src >> Scale >> Scale >> {sink1, sink2}
        {"comps": [{"kind": "time", "start": 0, "steps": [1]}, {"kind": "time", "start": 0, "steps": [2]},
                   {"kind": "time", "start": 0, "steps": [3]}],
         "links": [{"src": 0, "out": 0, "dst": 1, "ads": [["scale"], ["scale"]]},
                   {"src": 0, "out": 0, "dst": 2, "ads": [], "via": 0}], "order": [0, 1, 2], "end": 6},
    ]


def run(ctx, res):
    res.rule = ("random DAGs and delay-resolved rings (as for C01/C04), end times on and off the step grids incl. "
                "end = start and end = start + 1, shuffled listing orders; non-trivial = at least 3 updates of at "
                "least 2 components; distinct by canonical hash")
    res.assumptions = ["6% of the cases contain a component that declares itself FINISHED before the end time: these exhibit the recorded finding finished-status-overwritten and are classified, not hidden"]
    specs = corpus() + [gen(ctx) for _ in range(ctx.n(300, 6000))]
    sc.run_cases(specs, res, [oracle], exclude=c01_known)
    # the package's own time-stepped components (engines/announce.py): every update moves the component to the time it
    # announced (strictly later), with fixed, sub-second and calendar steps, and the run ends at or beyond an end time that
    # may lie a few microseconds behind a grid point
    for _ in range(ctx.n(60, 800)):
        c = announce.gen(ctx.rng)
        impl = announce.run(c)
        res.case(c, len(impl["log"]) >= 4)
        res.count("part", "announce/" + c["comp"])
        o = announce.oracle(c, impl)
        if o:
            res.fail(c, o[0], o[1])
    # compositions without any time-stepped component (engines/notime.py): nothing to step, the life cycle is walked all the same
    for _ in range(ctx.n(24, 200)):
        c = notime.gen(ctx.rng)
        res.case(c, True)
        res.count("part", "no-time-components")
        o = notime.oracle(c, notime.run(c))
        if o:
            res.fail(c, o[0], o[1])


def search(ctx, res, divergences, broken):
    for _ in range(300):
        c = announce.gen(ctx.rng)
        res.case(c, True)
        o = announce.oracle(c, announce.run(c))
        if o:
            res.fail(c, o[0], o[1], None)
            return
    for _ in range(60):
        c = notime.gen(ctx.rng)
        res.case(c, True)
        o = notime.oracle(c, notime.run(c))
        if o:
            res.fail(c, o[0], o[1], None)
            return
    specs = [d["case"] for d in divergences if d.get("case")] + [gen(ctx) for _ in range(ctx.n(1500, 20000))]
    for s in specs:
        impl = run_impl(s)
        if c01_known(s, impl):
            continue
        res.case(sc.slim(s), True)
        f = oracle(s, impl)
        if f and f[2] is None:
            res.fail(sc.slim(s), f[0], f[1], None)
            return


def shrink(ctx, f):
    if f["case"].get("part") in ("notime", "announce"):
        return f

    def still(t):
        impl = run_impl(t, timeout=10)
        o = oracle(t, impl)
        return bool(o) and o[2] == f.get("signature") and not c01_known(t, impl)

    small = sc.shrink_spec(f["case"], still)
    impl = run_impl(small)
    o = oracle(small, impl)
    return {"case": small, "required": o[0], "observed": o[1], "signature": o[2]} if o else f


def replay(ctx, rp):
    case = rp.get("input") or (rp.get("diverging_case") or {}).get("case")
    if case.get("part") == "announce":
        impl = announce.run(case)
        o = announce.oracle(case, impl)
        return {"fails": bool(o), "oracle": o, "log": impl["log"]}
    if case.get("part") == "notime":
        impl = notime.run(case)
        o = notime.oracle(case, impl)
        return {"fails": bool(o), "oracle": o, "observed": impl}
    impl = run_impl(case)
    o = oracle(case, impl)
    return {"fails": bool(o) and o[2] is None, "oracle": o, "updates": impl["updates"][:40], "error": impl.get("msg"), "calls": impl["calls"]}


def _known_fin(ctx):
    spec = {"comps": [{"kind": "time", "start": 0, "steps": [1], "finish_at": 2}, {"kind": "time", "start": 0, "steps": [2]}],
            "links": [], "order": [0, 1], "end": 6}
    o = oracle(spec, run_impl(spec))
    return bool(o) and o[2] == SIG_FIN


KNOWN_REPRO = {SIG_FIN: _known_fin}
