"""C05 on the package's own components: CallbackGenerator >> CallbackComponent(s) >> recording consumer, with callbacks
that carry state (a call counter enters the value), under every listing order.  The components promise to call the user
callback once for the initial data and once per step, whatever the connect loop does; a callback called an order-dependent
number of times shifts the whole series."""
import datetime as dt
import itertools

import numpy as np

import finam as fm

from ..fmutil import limited

START = dt.datetime(2000, 1, 1)


def gen(rng):
    r = rng.random()
    if r < 0.25:
        # one generator (static or stepping) with two outputs whose callbacks draw from one shared counter
        return {"part": "pkg", "shape": "two_outputs", "static": rng.random() < 0.6, "steps": [rng.choice([1, 2]), rng.choice([1, 2, 3])],
                "days": rng.randint(3, 7)}
    if r < 0.45:
        # producer >> StackTime >> consumer, and a second consumer of the same producer with a longer step
        return {"part": "pkg", "shape": "stack", "src_step": 1, "steps": [rng.choice([2, 3]), rng.choice([3, 4, 5])],
                "days": rng.randint(6, 12)}
    if r < 0.58:
        # two noise generators with different seeds (the noise library keeps one process-wide seed)
        return {"part": "pkg", "shape": "noise2", "seeds": [rng.randint(1, 50), rng.randint(51, 99)], "steps": [rng.choice([1, 2]), rng.choice([1, 2])],
                "days": rng.randint(3, 6)}
    if r < 0.64:
        # two producers in different units of one dimension, two consumers whose inputs were declared with one and the same Info
        # object (units left open): each input ends up with the units of its own source, whatever the listing
        return {"part": "pkg", "shape": "shared_info", "units": rng.choice([["m", "km"], ["km", "m"], ["mm", "cm"]]), "steps": [rng.choice([1, 2]), rng.choice([1, 2])],
                "days": rng.randint(3, 5)}
    if r < 0.70:
        # no start time given to run(): it is the earliest time among the components, one of which (a TimeTrigger without
        # a start) learns its time only during connect
        return {"part": "pkg", "shape": "autostart", "starts": [rng.choice([0, 1]), rng.choice([2, 3, 4])], "days": rng.randint(6, 9)}
    n_mid = rng.choice([1, 1, 2])
    return {"part": "pkg", "mids": [{"initial_pull": rng.random() < 0.5, "step": rng.choice([1, 2, 3])} for _ in range(n_mid)],
            "src_step": rng.choice([1, 1, 2]), "sink_step": rng.choice([1, 2, 4]), "sink_pull": rng.random() < 0.7,
            "days": rng.randint(4, 10)}


def _recorder(name, step, series, counting, pull=True):
    def rec(n, inp, t):
        if inp is not None:
            series.setdefault(name, []).append([t.isoformat(), [float(x) for x in fm.data.get_magnitude(inp["In"]).reshape(-1)]])
        return {}
    return fm.components.CallbackComponent(inputs={"In": fm.Info(time=None, grid=None, units=None)}, outputs={},
                                           callback=counting(name, rec), start=START, step=dt.timedelta(days=step), initial_pull=pull)


def run_special(case, order):
    calls, series = {}, {}

    def counting(name, f):
        def cb(*a):
            calls[name] = calls.get(name, 0) + 1
            return f(calls[name], *a)
        return cb

    if case["shape"] == "two_outputs":
        shared = {"n": 0}

        def draw(*_a):
            shared["n"] += 1
            return float(shared["n"])

        info = lambda: fm.Info(time=None, grid=fm.NoGrid(), units="")  # noqa
        if case["static"]:
            gen_c = fm.components.StaticCallbackGenerator({"A": (draw, info()), "B": (draw, info())})
        else:
            gen_c = fm.components.CallbackGenerator({"A": (draw, info()), "B": (draw, info())}, START, dt.timedelta(days=1))
        ra = _recorder("a", case["steps"][0], series, counting)
        rb = _recorder("b", case["steps"][1], series, counting)
        comps = [gen_c, ra, rb]
        links = [("A", ra), ("B", rb)]
    elif case["shape"] == "noise2":
        info = lambda: fm.Info(time=None, grid=fm.UnstructuredPoints([[0.0, 0.0], [1.5, 0.5], [0.3, 2.0]]), units="")  # noqa
        na = fm.components.SimplexNoise(info=info(), frequency=0.3, time_frequency=0.2, octaves=2, persistence=0.5, seed=case["seeds"][0])
        nb = fm.components.SimplexNoise(info=info(), frequency=0.3, time_frequency=0.2, octaves=2, persistence=0.5, seed=case["seeds"][1])
        ra = _recorder("a", case["steps"][0], series, counting)
        rb = _recorder("b", case["steps"][1], series, counting)
        comps = [na, nb, ra, rb]
        links = [(na, "Noise", ra), (nb, "Noise", rb)]
    elif case["shape"] == "shared_info":
        ga = fm.components.CallbackGenerator({"Out": (lambda t: float(1 + (t - START).days), fm.Info(time=None, grid=fm.NoGrid(), units=case["units"][0]))},
                                             START, dt.timedelta(days=1))
        gb = fm.components.CallbackGenerator({"Out": (lambda t: float(1 + 2 * (t - START).days), fm.Info(time=None, grid=fm.NoGrid(), units=case["units"][1]))},
                                             START, dt.timedelta(days=1))
        shared_info = fm.Info(time=None, grid=fm.NoGrid(), units=None)     # one object for both consumers' inputs

        def recorder(name, step):
            def rec(n, inp, t):
                if inp is not None:
                    series.setdefault(name, []).append([t.isoformat(), [float(x) for x in fm.data.get_magnitude(inp["In"]).reshape(-1)], str(inp["In"].units)])
                return {}
            return fm.components.CallbackComponent(inputs={"In": shared_info}, outputs={}, callback=counting(name, rec), start=START,
                                                   step=dt.timedelta(days=step), initial_pull=True)
        ra, rb = recorder("a", case["steps"][0]), recorder("b", case["steps"][1])
        comps = [ga, gb, ra, rb]
        links = [(ga, "Out", ra), (gb, "Out", rb)]
    elif case["shape"] == "autostart":
        info = lambda: fm.Info(time=None, grid=fm.NoGrid(), units="")  # noqa
        ge = fm.components.CallbackGenerator({"Out": (lambda t: float(t.toordinal() % 100), info())},
                                             START + dt.timedelta(days=case["starts"][0]), dt.timedelta(days=1))
        gl = fm.components.CallbackGenerator({"Out": (lambda t: float(1000 + t.toordinal() % 100), info())},
                                             START + dt.timedelta(days=case["starts"][1]), dt.timedelta(days=1))
        trig = fm.components.TimeTrigger(start=None, step=dt.timedelta(days=1), in_info=fm.Info(time=None, grid=None, units=None))
        comps = [ge, gl, trig]
        links = [(gl, "Out", trig)]
        series["trigger_start"] = []
    else:
        grid = fm.UniformGrid((3, 2))
        gen_c = fm.components.CallbackGenerator(
            {"Out": (lambda t: np.full((2, 1), float(t.toordinal() % 100)), fm.Info(time=None, grid=grid, units=""))},
            START, dt.timedelta(days=case["src_step"]))
        ra = _recorder("stack", case["steps"][0], series, counting)
        rb = _recorder("plain", case["steps"][1], series, counting)
        comps = [gen_c, ra, rb]
        links = [("Out", None), ("Out", rb)]
    res = {"error": None}
    try:
        comp = fm.Composition([comps[i] for i in order], log_level="ERROR")
        for lk in links:
            if len(lk) == 3:
                lk[0].outputs[lk[1]] >> lk[2].inputs["In"]
            elif lk[1] is None:
                gen_c.outputs[lk[0]] >> fm.adapters.StackTime() >> ra.inputs["In"]
            else:
                gen_c.outputs[lk[0]] >> lk[1].inputs["In"]
        if case["shape"] == "autostart":
            limited(30, comp.connect)
            series["time_frame"] = [comp._time_frame[0].isoformat() if comp._time_frame[0] else None]
            series["published_at_connect"] = [[t.isoformat() for t, _d in c.outputs["Out"].data] for c in comps[:2]]
            limited(30, comp.run, end_time=START + dt.timedelta(days=case["days"]))
        else:
            limited(30, comp.run, start_time=START, end_time=START + dt.timedelta(days=case["days"]))
    except Exception as e:  # noqa
        res["error"] = type(e).__name__
        res["msg"] = str(e)[:200]
    res["series"] = [[k, v] for k, v in sorted(series.items())]
    res["calls"] = dict(sorted(calls.items()))
    res["final"] = [c.time.isoformat() if getattr(c, "time", None) else None for c in comps[1:]]
    return res


def run_order(case, order):
    if case.get("shape"):
        return run_special(case, order)
    info = lambda: fm.Info(time=None, grid=fm.NoGrid(), units="")  # noqa
    calls = {}

    def counting(name, f):
        def cb(*a):
            calls[name] = calls.get(name, 0) + 1
            return f(calls[name], *a)
        return cb

    src = fm.components.CallbackGenerator(
        {"Out": (counting("src", lambda n, t: float(100 * n)), info())}, START, dt.timedelta(days=case["src_step"]))
    comps = [src]
    prev = src
    for i, m in enumerate(case["mids"]):
        def f(n, inp, t, i=i):
            base = 0.0 if inp is None else float(fm.data.get_magnitude(inp["In"]).reshape(-1)[0])
            return {"Out": base + n}
        c = fm.components.CallbackComponent(inputs={"In": fm.Info(time=None, grid=None, units=None)}, outputs={"Out": info()},
                                            callback=counting(f"mid{i}", f), start=START, step=dt.timedelta(days=m["step"]),
                                            initial_pull=m["initial_pull"])
        comps.append(c)
        prev = c
    series = []

    def rec(n, inp, t):
        if inp is not None:
            series.append([t.isoformat(), float(fm.data.get_magnitude(inp["In"]).reshape(-1)[0])])
        return {}

    sink = fm.components.CallbackComponent(inputs={"In": fm.Info(time=None, grid=None, units=None)}, outputs={},
                                           callback=counting("sink", rec), start=START, step=dt.timedelta(days=case["sink_step"]),
                                           initial_pull=case["sink_pull"])
    comps.append(sink)
    listed = [comps[i] for i in order]
    res = {"error": None}
    try:
        comp = fm.Composition(listed, log_level="ERROR")
        for a, b in zip(comps, comps[1:]):
            a.outputs["Out"] >> b.inputs["In"]
        limited(30, comp.run, start_time=START, end_time=START + dt.timedelta(days=case["days"]))
    except Exception as e:  # noqa
        res["error"] = type(e).__name__
        res["msg"] = str(e)[:200]
    res["series"] = series
    res["calls"] = dict(sorted(calls.items()))
    res["final"] = [c.time.isoformat() if c.time else None for c in comps]
    return res


def check(case):
    """returns None or (required, observed)"""
    n = (4 if case.get("shape") in ("noise2", "shared_info") else 3) if case.get("shape") else len(case["mids"]) + 2
    first = None
    for order in itertools.permutations(range(n)):
        r = run_order(case, list(order))
        obs = {k: r[k] for k in ("error", "series", "calls", "final")}
        if first is None:
            first = (list(order), obs)
        elif obs != first[1]:
            key = next(k for k in obs if obs[k] != first[1][k])
            a, b = first[1][key], obs[key]
            if key == "series":
                k = next((i for i, (x, y) in enumerate(zip(a, b)) if x != y), min(len(a), len(b)))
                a, b = a[k:k + 2], b[k:k + 2]
            return ("the outcome of connect() and run() is the same for every listing order (here: the package's own callback "
                    "components with callbacks that count their calls)",
                    {"differs": key, "order_a": first[0], "a": a, "order_b": list(order), "b": b})
    return None
