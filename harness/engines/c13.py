"""C13 — delay adapters deliver exactly the source's data for the shifted time.

Part 1 (link level): `Output >> chain of 1-3 delay adapters mixed with Scale >> Input`, random
publications and non-decreasing requests (from the start time on).  Correspondence: the time that
reaches `Output.get_data` and the publication served, against `Finam.pullChain` + `Finam.lookup`.
Oracle (independent of the model): reference implementation of the three adapters' definitions
(fixed: max(t-d, start); to-pull: n-th previous request minus extra delay, not before start;
to-push: min(t, newest publication)), composed along the chain.
Part 2 (driver level): `src(step 1) >> chain >> cons` run through `Composition.run`; the time the
driver waited for must be the time then requested: at every consumer update the source is at or
beyond the requested time and was not advanced a whole step further than that.
"""
from datetime import timedelta

import numpy as np

from . import sched_common as sc
from . import caldelay
from .. import common
from ..fmutil import T, ad, err_class, fm, scalar, us
from ..schedlib import run_impl, model_request

MODULES = sc.MODULES + ["DataPath", "Output"]
GEN_OBLIGATIONS = ["delay_fixed_flags", "delay_to_push_flags", "delay_to_pull_flags", "delay_names", "delay_to_pull_defaults"]
HOUR = 3_600_000_000


def gen_link(rng):
    n = rng.randint(1, 3)
    chain = []  # source -> consumer
    for _ in range(n):
        k = rng.choice(["dfix", "dfix", "dpull", "dpull", "dpush"])
        if k == "dfix":
            chain.append(["dfix", rng.choice([0, 1, 2, 3, 5, 7])])
        elif k == "dpull":
            chain.append(["dpull", rng.randint(1, 3), rng.choice([0, 0, 1, 2])])
        else:
            chain.append(["dpush"])
        if rng.random() < 0.3:
            chain.append(["scale"])
    init = rng.randint(0, 3)
    # the consumer may declare its own (later) time in the requested metadata; the clamp of the delay adapters is the
    # *source's* start all the same
    in_time = None if rng.random() < 0.5 else init + rng.randint(0, 4)
    t_pub = init
    t_req = init if in_time is None else in_time
    events = [["push", init]]
    if in_time is not None and in_time > init:
        t_pub = in_time + rng.randint(0, 2)
        events.append(["push", t_pub])
    for _ in range(rng.randint(4, 25)):
        if rng.random() < 0.5:
            t_pub += rng.randint(1, 4)
            events.append(["push", t_pub])
        else:
            t_req += rng.choice([0, 1, 1, 2, 3, 5])
            events.append(["pull", t_req])
    if rng.random() < 0.15:
        # a consumer that pulls while it is notified of a publication (a `CallbackInput`; time adapters do the same):
        # every publication is followed by a request for its time, made from inside the notification
        t_pub, events = init, [["push", init], ["pull", init]]
        for _ in range(rng.randint(3, 12)):
            t_pub += rng.randint(1, 4)
            events += [["push", t_pub], ["pull", t_pub]]
        return {"chain": chain, "init": init, "in_time": None, "events": events, "notified": True}
    case = {"chain": chain, "init": init, "in_time": in_time, "events": events}
    if all(a[0] != "dpull" for a in chain) and in_time is None and rng.random() < 0.25:
        # a second consumer on the same adapter objects (DelayFixed / DelayToPush / Scale may branch), asking on its own,
        # slower or faster schedule: an adapter's answer depends on the request (and the newest publication), not on who
        # asked before
        case["shared"] = True
        t2, mixed = init, []
        for ev in events:
            second = None
            if ev[0] == "pull" and rng.random() < 0.6:
                t2 += rng.choice([0, 1, 2, 4])
                second = ["pull", t2, 1]
            if second is not None and rng.random() < 0.5:
                mixed += [second, ev]
            else:
                mixed += [ev] + ([second] if second is not None else [])
        case["events"] = mixed
    return case


def mk(a):
    if a[0] == "dfix":
        return ad.DelayFixed(timedelta(hours=a[1]))
    if a[0] == "dpull":
        return ad.DelayToPull(steps=a[1], additional_delay=timedelta(hours=a[2]))
    if a[0] == "dpush":
        return ad.DelayToPush()
    return ad.Scale(1.0)


def run_link(case):
    init = case["init"]
    out = fm.Output(name="out", info=fm.Info(time=T(init * HOUR), grid=fm.NoGrid(), units=""))
    in_time = case.get("in_time")
    inp = fm.Input(name="in", info=fm.Info(time=None if in_time is None else T(in_time * HOUR), grid=None, units=None))
    reached = []
    results = []
    if case.get("notified"):
        def notified(caller, time):
            reached.clear()
            try:
                v = caller.pull_data(time)
                results.append({"reach": reached[-1] if reached else None, "value": {"ok": int(round(scalar(v)))}})
            except Exception as e:  # noqa
                results.append({"reach": reached[-1] if reached else None, "value": {"err": err_class(e)}})

        inp = fm.CallbackInput(callback=notified, name="in", info=fm.Info(time=None, grid=None, units=None))
    cur = out
    for a in case["chain"]:
        cur = cur >> mk(a)
    cur >> inp
    inp2 = None
    if case.get("shared"):
        inp2 = fm.Input(name="in2", info=fm.Info(time=None, grid=None, units=None))
        cur >> inp2
    inp.ping()
    if inp2 is not None:
        inp2.ping()
    inp.exchange_info()
    if inp2 is not None:
        inp2.exchange_info()
    orig = out.get_data

    def logged(time, target):
        reached.append(us(time) // HOUR)
        return orig(time, target)

    out.get_data = logged
    idx = 0
    for ev in case["events"]:
        if ev[0] == "push":
            results.append(None)
            n0 = len(results)
            try:
                out.push_data(np.array(float(idx)), T(ev[1] * HOUR))
            except Exception as e:  # noqa
                if case.get("notified") and len(results) == n0:
                    results.append({"reach": None, "value": {"err": err_class(e)}})
            idx += 1
        elif case.get("notified"):
            continue  # made by the input from inside the notification of the publication before
        else:
            reached.clear()
            try:
                v = (inp2 if len(ev) > 2 else inp).pull_data(T(ev[1] * HOUR))
                results.append({"reach": reached[-1] if reached else None, "value": {"ok": int(round(scalar(v)))}})
            except Exception as e:  # noqa
                results.append({"reach": reached[-1] if reached else None, "value": {"err": err_class(e)}})
    return results


def model_link(case):
    ads, ndp = [], 0
    for a in case["chain"]:
        if a[0] == "dfix":
            ads.append(["dfix", a[1], case["init"]])
        elif a[0] == "dpull":
            ads.append(["dpull", ndp, a[1], a[2], case["init"]])
            ndp += 1
        elif a[0] == "dpush":
            ads.append(["dpush"])
        else:
            ads.append(["pass"])
    return {"op": "c13", "ads": ads[::-1], "init": case["init"], "ndp": ndp, "events": [e[:2] for e in case["events"]], "probe": case["init"]}


def reference(case):
    """the adapters' documented definitions, composed from the consumer side"""
    init = case["init"]
    hist = {i: [] for i, a in enumerate(case["chain"]) if a[0] == "dpull"}  # requests seen by each to-pull adapter
    pubs = []
    out = []
    for ev in case["events"]:
        if ev[0] == "push":
            pubs.append(ev[1])
            out.append(None)
            continue
        t = ev[1]
        pending = {}
        for i in range(len(case["chain"]) - 1, -1, -1):
            a = case["chain"][i]
            if a[0] == "dfix":
                t = max(t - a[1], init)
            elif a[0] == "dpull":
                h = hist[i]
                prev = h[-a[1]] if len(h) >= a[1] else init
                pending[i] = h + [t]
                t = min(t, max(prev - a[2], init))
            elif a[0] == "dpush":
                t = min(t, pubs[-1]) if pubs else init
        # nearest publication; a refused request is not a "previous request" (the adapter records a pull
        # only after its source answered)
        if not pubs or t < pubs[0] or t > pubs[-1]:
            out.append({"reach": t, "value": "err"})
        else:
            hist.update(pending)
            dmin = min(abs(t - p) for p in pubs)
            out.append({"reach": t, "value": [i for i, p in enumerate(pubs) if abs(t - p) == dmin]})
    return out


def oracle_link(case, impl):
    ref = reference(case)
    for k, (a, b) in enumerate(zip(impl, ref)):
        if b is None:
            continue
        if a["reach"] != b["reach"]:
            return ("the request reaching the source is the request shifted by the adapters' definitions",
                    {"event": k, "requested_at_source": a["reach"], "definition": b["reach"]})
        if b["value"] == "err":
            if "err" not in a["value"]:
                return ("a shifted time outside the published range is refused", {"event": k, "got": a["value"]})
        elif a["value"].get("ok") not in b["value"]:
            return ("the adapter answers with the source's data for the shifted time", {"event": k, "got": a["value"], "expected_index": b["value"]})
    return None


def compare_link(impl, model):
    for k, (a, b) in enumerate(zip(impl, model["results"])):
        if a is None or b is None:
            continue
        if a["reach"] != b.get("reach"):
            return {"event": k, "impl_reach": a["reach"], "model_reach": b.get("reach")}
        mv = b.get("value") or {}
        if ("ok" in a["value"]) != ("ok" in mv) or a["value"].get("ok") != mv.get("ok"):
            if not ("err" in a["value"] and "err" in mv):
                return {"event": k, "impl": a["value"], "model": mv}
    return None


# ---------------------------------------------------------------- driver level
def gen_comp(rng):
    if rng.random() < 0.2:
        return sc.gen_mixed_delay_chain(rng)
    if rng.random() < 0.15:
        # a push-based time adapter with a fixed delay *downstream* of it: the consumer's shifted request goes to the adapter's
        # buffer, and the shifted time is what the driver has to wait for
        d = rng.randint(1, 6)
        chain = [[rng.choice(["lin", "prev", "next"])]] + ([["scale"]] if rng.random() < 0.3 else []) + [["dfix", d]]
        return {"comps": [{"kind": "time", "start": 0, "steps": [1]}, {"kind": "time", "start": 0, "steps": [rng.choice([d + 1, d + 3, 7, 10])]}],
                "links": [{"src": 0, "out": 0, "dst": 1, "ads": chain}], "order": rng.sample([0, 1], 2), "end": rng.randint(15, 40)}
    chain = []
    for _ in range(rng.randint(1, 3)):
        k = rng.choice(["dfix", "dfix", "dpull", "scale"])
        chain.append(["dfix", rng.randint(0, 6)] if k == "dfix" else ["dpull", rng.randint(1, 2), rng.randint(0, 2)] if k == "dpull" else ["scale"])
    steps = [rng.choice([2, 3, 4, 5, 7])]
    if rng.random() < 0.4:
        steps.append(rng.choice([1, 2, 6]))
    comps = [{"kind": "time", "start": 0, "steps": [1]}, {"kind": "time", "start": 0, "steps": steps}]
    links = [{"src": 0, "out": 0, "dst": 1, "ads": chain}]
    if rng.random() < 0.35:
        # one or two pull-based components on the way; the delay chain sits downstream of the first one
        # (src >> P >> chain >> cons   or   src >> P1 >> chain >> P2 >> cons)
        chain = [a for a in chain if a[0] != "dpull"] or [["dfix", rng.randint(1, 6)]]
        comps.append({"kind": "pull", "nout": 1})
        links = [{"src": 0, "out": 0, "dst": 2, "ads": [["scale"]] if rng.random() < 0.3 else []}]
        if rng.random() < 0.5:
            comps.append({"kind": "pull", "nout": 1})
            links += [{"src": 2, "out": 0, "dst": 3, "ads": chain}, {"src": 3, "out": 0, "dst": 1, "ads": []}]
        else:
            links += [{"src": 2, "out": 0, "dst": 1, "ads": chain}]
    order = list(range(len(comps)))
    rng.shuffle(order)
    return {"comps": comps, "links": links, "order": order, "end": rng.randint(10, 40)}


def oracle_comp(spec, impl):
    if impl["error"] is not None:
        return ("the run completes", {"error": impl["error"], "msg": impl.get("msg")})
    src_time, cons_time = 0, 0
    for u, t, reqs in sc.split_updates(impl):
        if u == 0:
            src_time = t
            continue
        rs = [tt for tag, tt in reqs if tag == ("out", 0)]
        if len(spec["comps"]) == 2 and any(a[0] in sc.CACHE for a in spec["links"][0]["ads"]):
            eff = sc.link_requirements(spec, 0, reqs)     # the request that reaches the push-based adapter's buffer
            rs = [eff] if isinstance(eff, (int, float)) else []
        if rs:
            r = rs[-1]
            if src_time < r:
                return ("the source has published at or beyond the time actually requested",
                        {"request": r, "source_time": src_time})
            # the source (step 1h) is updated either because it is (tied for) furthest back or because the driver
            # waits for the shifted time; beyond both, it was advanced for a time nobody requests
            if src_time > max(r, cons_time + 1):
                return ("the driver waits for exactly the shifted time (what it assumes when scheduling is what is requested)",
                        {"request": r, "source_time": src_time, "consumer_before": cons_time, "consumer_update_to": t})
        cons_time = t
    return None


def run(ctx, res):
    res.rule = ("link level: chains of 1-3 delay adapters (DelayFixed 0-7h, DelayToPull 1-3 steps +0-2h, DelayToPush) mixed "
                "with Scale, random publications, non-decreasing requests from the start time on; driver level: "
                "src(step 1h) >> chain >> cons(varying steps); non-trivial = at least one served pull whose shifted time "
                "differs from the requested time; distinct by canonical hash")
    res.assumptions = ["requests before the start time are outside the domain (the adapters then pass the request through)",
                       "delays are non-negative"]
    cases = [gen_link(ctx.rng) for _ in range(ctx.n(400, 8000))]
    models = common.lean_batch([model_link(c) for c in cases])
    for c, m in zip(cases, models):
        impl = run_link(c)
        shifted = any(r and r["reach"] is not None and r["reach"] != ev[1] for r, ev in zip(impl, c["events"]) if ev[0] == "pull")
        res.case(c, shifted)
        for a in c["chain"]:
            res.count("adapter_kinds", a[0])
        res.count("chain_length", len(c["chain"]))
        d = compare_link(impl, m)
        if d:
            res.diverge("link/delay-chain", c, d, None)
        o = oracle_link(c, impl)
        if o:
            res.fail(c, o[0], o[1])
    # calendar (relativedelta) delays: oracle only (engines/caldelay.py)
    for _ in range(ctx.n(60, 800)):
        c = caldelay.gen(ctx.rng)
        res.case(c, True)
        res.count("part", "calendar-delay")
        o = caldelay.oracle(c, caldelay.run(c))
        if o:
            res.fail(c, o[0], o[1])
    specs = [gen_comp(ctx.rng) for _ in range(ctx.n(150, 3000))]
    reqs, orders = zip(*[model_request(s) for s in specs])
    models = common.lean_batch(list(reqs))
    for s, m, o in zip(specs, models, orders):
        impl = run_impl(s)
        res.case(s, len(impl["updates"]) > 3)
        res.count("driver_level_cases")
        d = sc.correspond(s, impl, m, o)
        if d:
            res.diverge("sched/update-sequence", s, d, None)
        f = oracle_any(s, impl)
        if f:
            res.fail(s, f[0], f[1])


def oracle_any(s, impl):
    """two components: the direct comparison of source time and requested time; three time components (mixed delay
    chain with a slow sink): the trace oracle of C02 — an update must be justified by the times actually requested"""
    if len([c for c in s["comps"] if c["kind"] == "time"]) >= 3:
        from . import c02
        if impl["error"] is not None:
            return ("the run completes", {"error": impl["error"], "msg": impl.get("msg")})
        return c02.oracle(s, impl)
    return oracle_comp(s, impl)


def search(ctx, res, divergences, broken):
    for _ in range(300):
        c = caldelay.gen(ctx.rng)
        res.case(c, True)
        o = caldelay.oracle(c, caldelay.run(c))
        if o:
            res.fail(c, o[0], o[1])
            return
    for d in divergences:
        c = d.get("case")
        if c and "chain" in c:
            o = oracle_link(c, run_link(c))
            if o:
                res.fail(c, o[0], o[1])
                return
    for _ in range(ctx.n(3000, 20000)):
        c = gen_link(ctx.rng)
        res.case(c, True)
        o = oracle_link(c, run_link(c))
        if o:
            res.fail(c, o[0], o[1])
            return
    for _ in range(ctx.n(500, 4000)):
        s = gen_comp(ctx.rng)
        res.case(s, True)
        f = oracle_any(s, run_impl(s))
        if f:
            res.fail(s, f[0], f[1])
            return


def shrink(ctx, f):
    if f["case"].get("part") == "caldelay":
        return f
    case = f["case"]
    if "chain" not in case:
        return f
    evs = list(case["events"])
    changed = True
    while changed:
        changed = False
        for i in range(len(evs)):
            trial = dict(case, events=evs[:i] + evs[i + 1:])
            try:
                o = oracle_link(trial, run_link(trial))
            except Exception:
                o = None
            if o:
                evs = trial["events"]
                f = {"case": trial, "required": o[0], "observed": o[1], "signature": None}
                changed = True
                break
    return f


def replay(ctx, rp):
    case = rp.get("input") or (rp.get("diverging_case") or {}).get("case")
    if case.get("part") == "caldelay":
        o = caldelay.oracle(case, caldelay.run(case))
        return {"fails": bool(o), "oracle": o}
    if "chain" in case:
        impl = run_link(case)
        o = oracle_link(case, impl)
        return {"fails": bool(o), "oracle": o, "impl": impl, "reference": reference(case)}
    impl = run_impl(case)
    o = oracle_any(case, impl)
    return {"fails": bool(o), "oracle": o, "updates": impl["updates"]}
