"""C17 — units: compatibility is dimensional equality, conversion exact, memo history-independent.

Correspondence: query histories over all ordered pairs of the Lean catalogue (69 unit spellings:
SI prefixes, powers, rates, degC/K/degF, percent, dimensionless aliases, CF/UDUNITS spellings) in
random orders, with and without `clear_units_cache()`, mixing `compatible_units`,
`equivalent_units`, `to_units`, `prepare` and values over a real `Output >> Input` link, are run
on the real package and through `Finam.Units.runMemo` of the Lean model.  Observables: every
answer (bool / magnitude, units of the result, reported conversion / error class) and the
final content of `_UNIT_PAIRS_CACHE`.  pint is the trusted part: its dimension, factor and offset
of every catalogue unit are compared with the independently written Lean table on every run.
Oracle (independent of the model): compatible <=> equal pint dimensionality; equivalent <=>
converting 1 gives 1; converted values equal the factor/offset arithmetic computed from pint's
base-unit representation; equivalent units leave numbers untouched; incompatible units are
refused (FinamDataError on publication, FinamMetaDataError on a link); every answer equals the
answer of the same call on a freshly cleared cache.
"""
import numpy as np

import finam as fm
from finam.data.tools import units as U_

from .. import common
from ..fmutil import T, close, err_class, rat

MODULES = ["Units", "UnitsLemmas"]
GEN_OBLIGATIONS = []
DIM_NAMES = ["[length]", "[mass]", "[time]", "[current]", "[temperature]", "[substance]", "[luminosity]"]
VALUES = [[0, 1], [1, 1], [-5, 2], [25, 2], [100, 1], [1, 8], [3, 1], [-40, 1], [273, 1], [1000, 1]]

_TABLE = None


def table():
    """the Lean catalogue: [(name, dim, factor, offset)], key ids by pint identity, representatives"""
    global _TABLE
    if _TABLE is None:
        rows = common.lean_batch([{"op": "c17table"}])[0]["table"]
        names = [r[0] for r in rows]
        key_of_unit, kid, reps = {}, [], []
        for n in names:
            u = fm.UNITS.Unit(n)
            if u not in key_of_unit:
                key_of_unit[u] = len(reps)
                reps.append(n)
            kid.append(key_of_unit[u])
        _TABLE = {"rows": rows, "names": names, "kid": kid, "reps": reps, "key_of_unit": key_of_unit}
    return _TABLE


def pint_repr(name):
    """(dimension vector, factor, offset) of a unit according to pint"""
    u = fm.UNITS.Unit(name)
    dim = [int(round(dict(u.dimensionality).get(d, 0))) for d in DIM_NAMES]
    extra = [d for d in dict(u.dimensionality) if d not in DIM_NAMES]
    q0 = fm.UNITS.Quantity(0.0, u).to_base_units().magnitude
    q1 = fm.UNITS.Quantity(1.0, u).to_base_units().magnitude
    return dim, float(q1 - q0), float(q0), extra


# ---------------------------------------------------------------------------------------------
# histories
# ---------------------------------------------------------------------------------------------
def gen_histories(rng, n_hist, rounds=1):
    """ordered pairs of catalogue *names* in random order, cut into histories; extra operations are
    interleaved: repeats of earlier pairs (memo hits), swapped pairs, conversions, publications, links"""
    tb = table()
    n = len(tb["names"])
    pairs = []
    for _ in range(rounds):
        ps = [(a, b) for a in range(n) for b in range(n)]
        rng.shuffle(ps)
        pairs += ps
    size = (len(pairs) + n_hist - 1) // n_hist
    hists = []
    for h in range(n_hist):
        chunk = pairs[h * size:(h + 1) * size]
        ops, seen = [["clear"]], []

        def value_pair():
            x, y = rng.choice(seen)
            if rng.random() < 0.75:  # mostly convertible: same dimension in the table
                y = rng.choice([k for k in range(n) if tb["rows"][k][1] == tb["rows"][x][1]])
            return (x, y) if rng.random() < 0.5 else (y, x)

        for a, b in chunk:
            ops.append([rng.choice(["compat", "equiv"]), a, b])
            seen.append((a, b))
            r = rng.random()
            if r < 0.10:
                x, y = rng.choice(seen)
                ops.append([rng.choice(["compat", "equiv"]), x, y])
            elif r < 0.16:
                x, y = rng.choice(seen)
                ops.append([rng.choice(["compat", "equiv"]), y, x])
            elif r < 0.24:
                x, y = value_pair()
                ops.append(["to_units", rng.choice(VALUES), x, y, rng.random() < 0.6])
            elif r < 0.31:
                x, y = value_pair()
                ops.append(["prepare", rng.choice(VALUES), x if rng.random() < 0.8 else None, y] + (["m"] if rng.random() < 0.3 else []))
            elif r < 0.34:
                x, y = value_pair()
                pub = None
                if rng.random() < 0.5:
                    # publish with foreign units: mostly of the producer's dimension
                    same = [k for k in range(n) if tb["rows"][k][1] == tb["rows"][x][1]]
                    pub = rng.choice(same) if rng.random() < 0.8 else rng.randrange(n)
                ops.append(["link", rng.choice(VALUES), x, y, pub] + (["m"] if rng.random() < 0.3 else []))
            elif r < 0.35 and h % 2 == 1:
                ops.append(["clear"])
        hists.append({"ops": ops})
    return hists


# ---------------------------------------------------------------------------------------------
# implementation
# ---------------------------------------------------------------------------------------------
def _val(x):
    return float(np.asarray(fm.data.get_magnitude(x)).reshape(-1)[0])


def _key(unit):
    return table()["key_of_unit"].get(fm.UNITS.Unit(unit), str(unit))


def _value_ans(x, conv):
    return {"v": _val(x), "label": _key(x.units), "conv": None if conv is None else [_key(conv[0]), _key(conv[1])]}


def run_op(op):
    names = table()["names"]
    kind = op[0]
    try:
        if kind == "clear":
            U_.clear_units_cache()
            return None
        if kind == "compat":
            return {"b": bool(fm.data.tools.compatible_units(names[op[1]], names[op[2]]))}
        if kind == "equiv":
            return {"b": bool(fm.data.tools.equivalent_units(names[op[1]], names[op[2]]))}
        v = np.array(op[1][0] / op[1][1])
        masked = op[-1] == "m"   # gridded payload under metadata with an explicit mask (same numbers expected)
        grid, ikw = fm.NoGrid(), {}
        if masked:
            grid, ikw = fm.UniformGrid((3,)), {"mask": np.array([False, True])}
            v = np.array([float(v), float(v)])
        if kind == "to_units":
            x, conv = fm.data.tools.to_units(fm.UNITS.Quantity(v, names[op[2]]), names[op[3]],
                                             check_equivalent=op[4], report_conversion=True)
            return _value_ans(x, conv)
        if kind == "prepare":
            data = v if op[2] is None else fm.UNITS.Quantity(v, names[op[2]])
            x, conv = fm.data.tools.prepare(data, fm.Info(time=None, grid=grid, units=names[op[3]], **ikw),
                                            report_conversion=True)
            return _value_ans(x, conv)
        if kind == "link":
            out = fm.Output(name="o", info=fm.Info(time=T(0), grid=grid, units=names[op[2]], **ikw))
            inp = fm.Input(name="i", info=fm.Info(time=T(0), grid=grid, units=names[op[3]]))
            out >> inp
            inp.ping()
            inp.exchange_info()
            data = v if op[4] is None else fm.UNITS.Quantity(v, names[op[4]])
            out.push_data(data, T(0))
            x = inp.pull_data(T(0))
            return {"v": _val(x), "label": _key(x.units)}
    except Exception as e:  # noqa
        return {"err": err_class(e), "msg": f"{type(e).__name__}: {str(e)[:100]}"}
    raise ValueError(op)


def run_impl(case):
    U_.clear_units_cache()  # a history starts from the empty memo (as the model does)
    answers = [run_op(op) for op in case["ops"]]
    cache = sorted([_key(a), _key(b), bool(c), bool(e)] for (a, b), (c, e) in U_._UNIT_PAIRS_CACHE.items())
    return {"answers": answers, "cache": cache}


def model_request(case):
    tb = table()
    kid = tb["kid"]
    ops = []
    for op in case["ops"]:
        k = op[0]
        if k == "clear":
            ops.append(["clear"])
        elif k in ("compat", "equiv"):
            ops.append([k, kid[op[1]], kid[op[2]]])
        elif k == "to_units":
            ops.append([k, op[1], kid[op[2]], kid[op[3]], op[4]])
        elif k == "prepare":
            ops.append([k, op[1], None if op[2] is None else kid[op[2]], kid[op[3]]])
        elif k == "link":
            ops.append([k, op[1], kid[op[2]], kid[op[3]], None if op[4] is None else kid[op[4]]])
    return {"op": "c17", "reps": tb["reps"], "ops": ops}


def same_answer(a, m, link=False):
    """implementation answer vs model answer"""
    if a is None or m is None:
        return a is None and m is None
    if "b" in a or "b" in m:
        return a.get("b") == m.get("b")
    if "err" in a or "err" in m:
        return a.get("err") == m.get("err")
    if a["label"] != m["label"] or not close(a["v"], rat(m["v"])):
        return False
    if not link and a.get("conv") != m.get("conv"):
        return False
    return True


def compare(case, impl, model):
    if model["nops"] != len(case["ops"]):
        raise common.MachineryError("driver dropped operations")
    for i, (op, a, m) in enumerate(zip(case["ops"], impl["answers"], model["memo"])):
        if not same_answer(a, m, link=op[0] == "link"):
            return {"op_index": i, "op": op, "impl": a, "model": m}
    mc = sorted(model["cache"])
    if impl["cache"] != mc:
        diff = [e for e in impl["cache"] if e not in mc][:3] + [e for e in mc if e not in impl["cache"]][:3]
        return {"cache_differs": diff, "impl_size": len(impl["cache"]), "model_size": len(mc)}
    return None


# ---------------------------------------------------------------------------------------------
# oracle
# ---------------------------------------------------------------------------------------------
def expected(op):
    """the property evaluated with pint only: returns a predicate description and a checker"""
    names = table()["names"]
    kind = op[0]
    if kind == "clear":
        return None

    def dims(k):
        return fm.UNITS.Unit(names[k]).dimensionality

    def fo(k):
        _d, f, o, _x = pint_repr(names[k])
        return f, o

    def conv(v, a, b):
        fa, oa = fo(a)
        fb, ob = fo(b)
        return (v * fa + oa - ob) / fb

    def one_to_one(a, b):
        return dims(a) == dims(b) and abs(conv(1.0, a, b) - 1.0) <= 1e-12

    def same_unit(a, b):
        return fm.UNITS.Unit(names[a]) == fm.UNITS.Unit(names[b])

    if kind == "compat":
        return {"b": dims(op[1]) == dims(op[2])}
    if kind == "equiv":
        return {"b": one_to_one(op[1], op[2])}
    v = op[1][0] / op[1][1]
    if kind == "to_units":
        a, b, chk = op[2], op[3], op[4]
        if dims(a) != dims(b):
            return {"refused": True}
        if same_unit(a, b) or (chk and one_to_one(a, b)):
            return {"v": v, "units": [b, a] if same_unit(a, b) else [b]}
        return {"v": conv(v, a, b), "units": [b]}
    if kind == "prepare":
        a, b = op[2], op[3]
        if a is None:
            return {"v": v, "units": [b]}
        if dims(a) != dims(b):
            return {"err": "FinamDataError"}
        if one_to_one(a, b):
            return {"v": v, "units": [a, b], "equivalent_to": b}
        return {"v": conv(v, a, b), "units": [b]}
    if kind == "link":
        a, b, pub = op[2], op[3], op[4]
        if dims(a) != dims(b):
            return {"err": "FinamMetaDataError"}
        if pub is not None and dims(pub) != dims(a):
            return {"err": "FinamDataError"}
        src = a if pub is None else pub
        return {"v": conv(v, src, b), "units": [b]}
    raise ValueError(op)


def op_ok(op, ans):
    exp = expected(op)
    names = table()["names"]
    if exp is None:
        return True, exp
    if "b" in exp:
        return (ans is not None and ans.get("b") == exp["b"]), exp
    if exp.get("refused"):
        return (ans is not None and "err" in ans), exp
    if "err" in exp:
        return (ans is not None and ans.get("err") == exp["err"]), exp
    if ans is None or "v" not in ans:
        return False, exp
    ok_units = any(ans["label"] == _key(names[k]) for k in exp["units"])
    return (ok_units and close(ans["v"], exp["v"])), exp


def oracle(case, impl):
    ops = case["ops"]
    for i, (op, a) in enumerate(zip(ops, impl["answers"])):
        ok, exp = op_ok(op, a)
        if not ok:
            return ("the answer must follow dimensional analysis (compatible <=> same dimension, equivalent <=> 1 -> 1, "
                    "values = factor/offset arithmetic, incompatible refused)",
                    {"op_index": i, "op": describe(op), "answer": a, "expected": exp})
    # history independence: the same call on a freshly cleared cache
    seen = {}
    for i, (op, a) in enumerate(zip(ops, impl["answers"])):
        if op[0] == "clear":
            continue
        k = common.chash(op)
        if k not in seen:
            U_.clear_units_cache()
            seen[k] = run_op(op)
        f = seen[k]
        if not _same_impl(a, f):
            return ("answers must not depend on which unit pairs were queried before",
                    {"op_index": i, "op": describe(op), "in_history": a, "on_fresh_cache": f})
    U_.clear_units_cache()
    return None


def _same_impl(a, f):
    if a is None or f is None:
        return a is None and f is None
    if "err" in a or "err" in f:
        return a.get("err") == f.get("err")
    if "b" in a:
        return a.get("b") == f.get("b")
    return a["label"] == f["label"] and close(a["v"], f["v"]) and a.get("conv") == f.get("conv")


def describe(op):
    names = table()["names"]
    if op[0] in ("compat", "equiv"):
        return [op[0], names[op[1]], names[op[2]]]
    if op[0] == "to_units":
        return [op[0], op[1], names[op[2]], names[op[3]], op[4]]
    if op[0] == "prepare":
        return [op[0], op[1], None if op[2] is None else names[op[2]], names[op[3]]]
    if op[0] == "link":
        return [op[0], op[1], names[op[2]], names[op[3]], None if op[4] is None else names[op[4]]]
    return op


# ---------------------------------------------------------------------------------------------
def check_table(res):
    """pint against the independently written Lean table (the trusted part is validated, not assumed)"""
    tb = table()
    for name, dim, fac, off in tb["rows"]:
        pd, pf, po, extra = pint_repr(name)
        case = {"table_entry": name}
        res.case(case, True)
        res.count("catalogue_units")
        if extra or pd != dim or not close(pf, rat(fac), 1e-12) or not close(po, rat(off), 1e-12):
            res.diverge("units/catalogue-vs-pint", case, {"dim": pd, "factor": pf, "offset": po, "extra": extra},
                        {"dim": dim, "factor": fac, "offset": off})


def check_cases(cases, res):
    models = common.lean_batch([model_request(c) for c in cases])
    for c, m in zip(cases, models):
        if m["memo"] != m["pure"]:
            raise common.MachineryError("model contradicts its own theorem memo_history_independent")
        impl = run_impl(c)
        kinds = {}
        for op, a in zip(c["ops"], impl["answers"]):
            kinds[op[0]] = kinds.get(op[0], 0) + 1
            res.evaluations += 1
            if a is not None and (a.get("b") is True or "v" in a or a.get("err", "other") != "other"):
                res.nontrivial.add(common.chash(describe(op)))
            res.count("operations", op[0])
            if a is not None:
                res.count("answers", "err:" + a["err"] if "err" in a else ("true" if a.get("b") is True else "false" if a.get("b") is False else "value"))
        hits = len([o for o in c["ops"] if o[0] != "clear"]) - len(impl["cache"])
        res.case({"ops": [describe(o) for o in c["ops"][:12]], "n_ops": len(c["ops"])}, hits > 0 and len(kinds) >= 4)
        res.count("memo_entries_at_end", n=len(impl["cache"]))
        d = compare(c, impl, m)
        if d:
            if "op" in d:
                d["op"] = describe(d["op"])
            res.diverge("units/history", minimal_case(c, d), d, None)
        o = oracle(c, impl)
        if o:
            res.fail(c, o[0], o[1])


def minimal_case(c, d):
    if "op_index" in d:
        return {"ops": c["ops"][: d["op_index"] + 1][-40:]}
    return {"ops": c["ops"][:40]}


def corpus():
    tb = table()
    ix = {n: i for i, n in enumerate(tb["names"])}
    g = lambda *names: [ix[n] for n in names]  # noqa
    return [{"ops": [["clear"],
                     ["compat", *g("m", "km")], ["equiv", *g("m", "km")], ["equiv", *g("m", "m")], ["compat", *g("km", "m")],
                     ["equiv", *g("mm", "L/m**2")], ["equiv", *g("L/m**2", "mm")], ["compat", *g("m", "s")],
                     ["equiv", *g("degC", "K")], ["compat", *g("degC", "degF")], ["equiv", *g("%", "1")],
                     ["equiv", *g("", "1")], ["equiv", *g("mmol/L", "mol m-3")], ["equiv", *g("kg m-2", "mm")],
                     ["to_units", [25, 2], *g("km/h", "m s-1"), True], ["to_units", [25, 2], *g("L/m**2", "mm"), True],
                     ["to_units", [25, 2], *g("L/m**2", "mm"), False], ["to_units", [-40, 1], *g("degC", "degF"), True],
                     ["to_units", [1, 1], *g("m", "s"), True], ["to_units", [3, 1], *g("m", "meter"), False],
                     ["prepare", [25, 2], ix["km"], ix["m"]], ["prepare", [25, 2], ix["L/m**2"], ix["mm"]],
                     ["prepare", [25, 2], ix["s"], ix["m"]], ["prepare", [25, 2], None, ix["hPa"]],
                     ["link", [25, 2], *g("mm/d", "m/s"), None], ["link", [273, 1], *g("K", "degC"), ix["degF"]],
                     ["link", [1, 1], *g("m", "s"), None], ["link", [1, 1], *g("m", "cm"), ix["s"]],
                     ["clear"], ["equiv", *g("m", "m")], ["compat", *g("m", "km")]]}]


RULE_TEXT = ("every ordered pair of the 69 catalogue spellings is queried (compatible_units or equivalent_units) in a random "
             "order, cut into histories that start from a cleared memo; interleaved: repeats and swaps of earlier pairs "
             "(memo hits), to_units with/without check_equivalent, prepare of plain and quantified data, values over a real "
             "Output >> Input link incl. publication with foreign units, clear_units_cache() in every second history; "
             "values from a dyadic set; non-trivial = history with memo hits and at least four kinds of operation")


def run(ctx, res):
    res.rule = RULE_TEXT
    res.assumptions = ["numpy.isclose tolerance of equivalent_units: the catalogue has no pair converting 1 into the band "
                       "(1 - 1.001e-5, 1 + 1.001e-5) other than exactly 1 (Lean theorem catalogue_tolerance_exact); "
                       "delta_ units and irrational factors (degree) are outside the catalogue",
                       "floating point rounding of pint is not modelled: values compared with relative tolerance 1e-9"]
    res.extra["ordered_pairs_all_queried"] = True  # every ordered pair of the catalogue is queried; orders are sampled
    check_table(res)
    cases = corpus() + gen_histories(ctx.rng, ctx.n(24, 96), rounds=ctx.n(2, 12))
    check_cases(cases, res)
    # whole links with float and integer payloads, direct / through adapters incl. regridding (engines/unitlink.py)
    from . import unitlink
    for _ in range(ctx.n(240, 1500)):
        c = unitlink.gen(ctx.rng)
        res.case(c, True)
        res.count("part", "unit-link/" + c["via"])
        o = unitlink.oracle(c, unitlink.run(c))
        if o:
            res.fail(c, o[0], o[1])
    # the package's merger adds values published in different units of one dimension (C20's harness, mixed units only)
    from . import c20
    for _ in range(ctx.n(40, 600)):
        c = c20.gen_ws(ctx.rng)
        if len({p["units"] for p in c["pairs"]}) < 2:
            continue
        res.case(c, True)
        res.count("part", "weighted-sum-mixed-units")
        o = c20.oracle_ws(c, c20.run_ws(c))
        if o:
            res.fail(c, o[0], o[1])


def search(ctx, res, divergences, broken):
    from . import c20, unitlink
    for _ in range(400):
        c = unitlink.gen(ctx.rng)
        res.case(c, True)
        o = unitlink.oracle(c, unitlink.run(c))
        if o:
            res.fail(c, o[0], o[1])
            return
    for _ in range(200):
        c = c20.gen_ws(ctx.rng)
        if len({p["units"] for p in c["pairs"]}) < 2:
            continue
        res.case(c, True)
        o = c20.oracle_ws(c, c20.run_ws(c))
        if o:
            res.fail(c, o[0], o[1])
            return
    cases = [d["case"] for d in divergences if d.get("case") and "ops" in d["case"]] + corpus() + gen_histories(ctx.rng, 24, rounds=2)
    for c in cases:
        impl = run_impl(c)
        res.case({"n_ops": len(c["ops"])}, True)
        o = oracle(c, impl)
        if o:
            res.fail(c, o[0], o[1])
            return


def _fails(case):
    try:
        return oracle(case, run_impl(case))
    except Exception:  # noqa
        return None


def shrink(ctx, f):
    """cut the history after the failing operation, then drop operations while the oracle keeps failing"""
    case = f["case"]
    if case.get("part") in ("ws", "unitlink"):
        return f
    obs = f["observed"]
    ops = list(case["ops"])
    if isinstance(obs, dict) and "op_index" in obs:
        ops = ops[: obs["op_index"] + 1]
    best = None
    trial = {"ops": ops}
    o = _fails(trial)
    if not o:
        return f
    best = (trial, o)
    # try the failing operation alone, then delta-debug the prefix
    alone = {"ops": [["clear"], ops[-1]]}
    o = _fails(alone)
    if o:
        best = (alone, o)
    else:
        chunk = max(1, len(ops) // 2)
        while chunk >= 1:
            i = 0
            changed = False
            while i < len(ops) - 1:
                t = {"ops": ops[:i] + ops[min(i + chunk, len(ops) - 1):]}
                o = _fails(t)
                if o and len(t["ops"]) < len(ops):
                    ops = t["ops"]
                    best = (t, o)
                    changed = True
                else:
                    i += chunk
            if not changed:
                chunk //= 2
    c, o = best
    c = {"ops": c["ops"], "readable": [describe(x) for x in c["ops"]]}
    return {"case": c, "required": o[0], "observed": o[1], "signature": f.get("signature")}


def replay(ctx, rp):
    case = rp.get("input") or (rp.get("diverging_case") or {}).get("case")
    if case.get("part") == "ws":
        from . import c20
        o = c20.oracle_ws(case, c20.run_ws(case))
        return {"fails": bool(o), "oracle": o}
    if case.get("part") == "unitlink":
        from . import unitlink
        o = unitlink.oracle(case, unitlink.run(case))
        return {"fails": bool(o), "oracle": o}
    case = {"ops": case["ops"]}
    impl = run_impl(case)
    o = oracle(case, impl)
    m = common.lean_batch([model_request(case)])[0]
    return {"fails": bool(o), "oracle": o, "ops": [describe(x) for x in case["ops"]], "impl": impl["answers"],
            "model": m["memo"], "correspondence": compare(case, impl, m)}
