"""C16 for several regridding adapters in one process, on coordinates of the size of projected reference systems (UTM:
4e5 / 5.6e6 m): a source grid and a copy of it staggered by a fraction of a cell are regridded one after the other to the
same target points.  Every link delivers, at every target, the value of a Euclidean-nearest location of *its own* source
grid (nearest) / the exact value of an affine field inside the hull (linear, unstructured source).  Oracle only."""
import datetime as dt

import numpy as np

import finam as fm

T0 = dt.datetime(2000, 1, 1)


def gen(rng):
    return {"part": "regridpair", "dims": [rng.randint(3, 7), rng.randint(3, 6)], "spacing": rng.choice([25.0, 50.0, 100.0]),
            "origin": [rng.choice([4.2e5, 6.1e5]), rng.choice([5.6e6, 5.9e6])], "stagger": rng.choice([0.5, 0.5, 0.25, 0.3]),
            "axis": rng.randrange(2), "loc": rng.choice(["CELLS", "POINTS"]), "kind": rng.choice(["nearest", "nearest", "linear"]),
            "ntargets": rng.randint(5, 25), "tseed": rng.randrange(10 ** 6), "links": rng.choice([2, 2, 3])}


def _link(kind, grid, tgt, field):
    out = fm.Output(name="out", info=fm.Info(time=T0, grid=grid, units="m"))
    inp = fm.Input(name="in", info=fm.Info(time=None, grid=tgt, units=None))
    ad = fm.adapters.RegridNearest() if kind == "nearest" else fm.adapters.RegridLinear(fill_with_nearest=True)
    out >> ad >> inp
    inp.ping()
    inp.exchange_info()
    pts = np.asarray(grid.data_points, dtype=float)
    vals = field(pts).reshape(grid.data_shape, order=grid.order)
    out.push_data(vals, T0)
    got = np.asarray(fm.data.get_magnitude(fm.data.strip_time(inp.pull_data(T0), tgt)), dtype=float).reshape(-1)
    return pts, field(pts), got


def run(case):
    rs = np.random.RandomState(case["tseed"])
    nx, ny = case["dims"]
    sp = case["spacing"]
    ox, oy = case["origin"]
    loc = fm.Location.CELLS if case["loc"] == "CELLS" else fm.Location.POINTS
    tp = np.column_stack([ox + rs.uniform(-0.3, nx - 0.7, case["ntargets"]) * sp, oy + rs.uniform(-0.3, ny - 0.7, case["ntargets"]) * sp])
    tgt = fm.UnstructuredPoints(tp)
    res = []
    try:
        for k in range(case["links"]):
            org = [ox, oy]
            org[case["axis"]] += k * case["stagger"] * sp
            if case["kind"] == "linear":
                # unstructured source (the triangulated path of RegridLinear)
                base = fm.UniformGrid((nx, ny), spacing=(sp, sp), origin=tuple(org), data_location=fm.Location.POINTS)
                grid = fm.UnstructuredPoints(np.asarray(base.points, dtype=float))
                field = lambda p, k=k: 0.01 * (p[:, 0] - ox) + 0.02 * (p[:, 1] - oy) + k   # noqa: affine
            else:
                grid = fm.UniformGrid((nx, ny), spacing=(sp, sp), origin=tuple(org), data_location=loc)
                field = lambda p, k=k: np.arange(len(p), dtype=float) + 1000.0 * k          # noqa: one value per location
            pts, vals, got = _link(case["kind"], grid, tgt, field)
            res.append({"src": pts, "vals": vals, "got": got})
        return {"links": res, "targets": tp}
    except Exception as e:  # noqa
        return {"err": type(e).__name__, "msg": str(e)[:200]}


def oracle(case, impl):
    if "err" in impl:
        return ("regridding between grids on projected coordinates works", {"error": impl["err"], "msg": impl["msg"]})
    tp = impl["targets"]
    sp = case["spacing"]
    for k, ln in enumerate(impl["links"]):
        src, vals, got = ln["src"], ln["vals"], ln["got"]
        for j, q in enumerate(tp):
            d2 = ((src - q) ** 2).sum(axis=1)
            if case["kind"] == "nearest":
                near = np.nonzero(d2 <= d2.min() * (1 + 1e-9) + 1e-9)[0]
                if not any(got[j] == vals[i] for i in near):
                    return ("every target location receives the value of a Euclidean-nearest location of the link's own source grid "
                            "(also when another adapter regridded a slightly shifted grid before)",
                            {"link": k, "target": q.tolist(), "got": float(got[j]), "nearest_source": [[src[i].tolist(), float(vals[i])] for i in near[:3]],
                             "stagger_m": case["stagger"] * sp})
            else:
                inside = (src[:, 0].min() <= q[0] <= src[:, 0].max()) and (src[:, 1].min() <= q[1] <= src[:, 1].max())
                if inside:
                    want = 0.01 * (q[0] - case["origin"][0]) + 0.02 * (q[1] - case["origin"][1]) + k
                    if abs(got[j] - want) > 1e-6 * max(1.0, abs(want)):
                        return ("linear regridding reproduces an affine field exactly inside the hull of the link's own source locations",
                                {"link": k, "target": q.tolist(), "got": float(got[j]), "expected": float(want)})
    return None
