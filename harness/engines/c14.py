"""C14 — grid index-to-coordinate mapping is consistent for every layout.

Correspondence: for structured grid configurations (uniform / rectilinear / ESRI; 1-3 axes with
lengths 1-4, order, axes_reversed, per-axis direction, data location) the public properties of the
real grid object (points, cells, cell_centers, data_axes, data_shape, data_size, data_points,
counts, and the same of its `to_unstructured()` cast) are compared with `Finam.SGrid` of the Lean
model (`FinamModel/Grid.lean`).  Random sequences of property reads, copies, casts and
data-location changes are run on real grids and through the model's memo state machine
(`Finam.gstep`).  numpy's ravel/unravel maps are compared with the model's on every small shape.

Oracle (independent of the model): the property statement evaluated on the real objects —
coordinate from `data_axes` at multi-index i == `data_points[ravel_multi_index(i, order)]`;
cell centres == mean of the cell's nodes; cells reference existing, distinct points; the
unstructured cast has the same data points / shape / location; after any operation history
shape, size and points are those of a freshly built grid with the current location.
"""
import itertools

import numpy as np

from .. import common
from .. import gridutil as gu
from ..fmutil import close, err_class, fm, rat

MODULES = ["Index", "IndexLemmas", "Grid", "GridLemmas", "CellLemmas"]
GEN_OBLIGATIONS = ["cell_tables", "location_enum"]
SIDES = (1, 2, 3, 4)


# ------------------------------------------------------------------------------------------------
# cases
# ------------------------------------------------------------------------------------------------
def all_configs(sides=SIDES):
    for d in (1, 2, 3):
        for dims in itertools.product(sides, repeat=d):
            for kind in ("uniform", "rect"):
                for order, rev, inc in gu.layouts(d):
                    for loc in ("cells", "points"):
                        yield {"type": "config",
                               "grid": gu.make_spec(kind, dims, order, rev, inc, loc, variant=sum(dims))}
    for ncols in sides:
        for nrows in sides:
            for order in "CF":
                yield {"type": "config", "grid": {"kind": "esri", "ncols": ncols, "nrows": nrows, "cellsize": 2,
                                                  "xll": 3, "yll": -1, "order": order}}


def gen_memo_case(rng):
    kind = rng.choice(["uniform", "uniform", "rect", "esri"])
    if kind == "esri":
        spec = {"kind": "esri", "ncols": rng.randint(1, 4), "nrows": rng.randint(1, 4), "cellsize": 1,
                "xll": 0, "yll": 0, "order": rng.choice("CF")}
    else:
        d = rng.randint(1, 3)
        dims = [rng.randint(1, 4) for _ in range(d)]
        spec = gu.make_spec(kind, dims, rng.choice("CF"), rng.random() < 0.5,
                            [rng.random() < 0.6 for _ in range(d)], rng.choice(["cells", "points"]))
    ops, kinds = [], [kind]
    for _ in range(rng.randint(3, 14)):
        k = rng.randrange(len(kinds))
        r = rng.random()
        if r < 0.25:
            ops.append(["shape", k])
        elif r < 0.45:
            ops.append(["size", k])
        elif r < 0.52:
            ops.append(["points", k])
        elif r < 0.58:
            ops.append(["ucast", k])   # to_unstructured(): the cast carries the grid's *current* data location
        elif r < 0.8:
            ops.append(["set", k, rng.choice(["cells", "points"])])
        elif r < 0.93 or kinds[k] != "uniform":
            ops.append([rng.choice(["copy", "deepcopy"]), k])
            kinds.append(kinds[k])
        else:
            ops.append(["cast", k])  # UniformGrid.to_rectilinear
            kinds.append("rect")
    return {"type": "memo", "grid": spec, "ops": ops}


def gen_numeric_case(rng):
    """configurations whose coordinates are not small integers (oracle only; the model's coordinates are exact rationals):
    uniform / ESRI grids with spacings that are not exact in binary and axis lengths up to 30, rectilinear grids whose axes
    arrive as float32 arrays on a large coordinate level (metres of a projected CRS, tenths of a degree)"""
    r = rng.random()
    if r < 0.25:
        return {"type": "numeric", "grid": {"kind": "esri", "ncols": rng.randint(1, 30), "nrows": rng.randint(1, 30),
                                            "cellsize": rng.choice([0.1, 0.2, 0.05, 0.7, 1 / 3]), "xll": rng.choice([0, 0.3, -1.7, 100.1]),
                                            "yll": rng.choice([0, 0.3, -1.7]), "order": rng.choice("CF")}}
    d = rng.randint(1, 2)
    order, rev = rng.choice("CF"), rng.random() < 0.5
    inc = [rng.random() < 0.6 for _ in range(d)]
    loc = rng.choice(["cells", "points"])
    if r < 0.65:
        return {"type": "numeric", "grid": {"kind": "uniform", "dims": [rng.randint(2, 30) for _ in range(d)],
                                            "spacing": [rng.choice([0.1, 0.2, 0.05, 0.7, 1 / 3]) for _ in range(d)],
                                            "origin": [rng.choice([0, 0, 0.3, -1.7, 100.1]) for _ in range(d)],
                                            "order": order, "rev": rev, "inc": inc, "loc": loc}}
    base, step = rng.choice([(20000010.0, 30.0), (7.05, 0.1), (5400000.5, 25.0), (0.0, 1.0)])
    axes = [[float(np.float32(base + (k + a) * step)) for k in range(rng.randint(2, 6))] for a in range(d)]
    return {"type": "numeric", "grid": {"kind": "rect", "axes": axes, "order": order, "rev": rev, "inc": inc, "loc": loc,
                                        "dtype": "float32"}}


def oracle_numeric(case):
    """the clauses of `oracle_grid` / `oracle_cast` with tolerances relative to the coordinate level, plus: the axes have
    the configured lengths and node k of an axis lies at origin + k * spacing"""
    s = case["grid"]
    g = gu.build_grid(s)
    if s["kind"] == "esri":
        want = [(s["ncols"] + 1, float(s["xll"]), float(s["cellsize"])), (s["nrows"] + 1, float(s["yll"]), float(s["cellsize"]))]
    elif s["kind"] == "uniform":
        want = [(n, float(o), float(sp)) for n, o, sp in zip(s["dims"], s["origin"], s["spacing"])]
    else:
        want = None
    axes = [np.asarray(a, dtype=float) for a in g.axes]
    if want is not None:
        for k, (n, o, sp) in enumerate(want):
            if len(axes[k]) != n:
                return ("an axis has as many nodes as configured (data shape, size and points follow from it)",
                        {"axis": k, "configured": n, "got": len(axes[k]), "data_shape": [int(x) for x in g.data_shape]})
            exp = np.sort(o + np.arange(n) * sp)
            if not np.allclose(np.sort(axes[k]), exp, rtol=1e-12, atol=1e-9):
                return ("node k of a uniform axis lies at origin + k * spacing", {"axis": k, "got": np.sort(axes[k]).tolist()[:6], "expected": exp.tolist()[:6]})
    else:
        for k, a in enumerate(s["axes"]):
            if not np.array_equal(np.sort(axes[k]), np.sort(np.asarray(a, dtype=float))):
                return ("the axes of a rectilinear grid are the given node coordinates", {"axis": k, "got": axes[k].tolist(), "given": a})
    level = max(1.0, float(np.max(np.abs(np.asarray(g.points, dtype=float)))))
    tol = 1e-12 * level
    points, cells = np.asarray(g.points, dtype=float), np.asarray(g.cells)
    cc = np.asarray(g.cell_centers, dtype=float)
    mean = np.array([points[row].mean(axis=0) for row in cells.tolist()])
    if mean.shape != cc.shape or not np.allclose(mean, cc, rtol=0, atol=max(tol, 1e-9 * min(level, 1.0))):
        bad = int(np.argmax(np.abs(mean - cc).sum(axis=1))) if mean.shape == cc.shape else -1
        return ("cell centre == mean of the cell's nodes",
                {"cell": bad, "centre": cc[bad].tolist() if bad >= 0 else list(cc.shape),
                 "mean_of_nodes": mean[bad].tolist() if bad >= 0 else list(mean.shape)})
    d = g.dim
    shp = tuple(int(n) for n in g.data_shape)
    pts = np.asarray(g.data_points, dtype=float)
    daxes = [np.asarray(a, dtype=float) for a in g.data_axes]
    if [len(a) for a in daxes] != list(shp) or int(np.prod(shp)) != len(pts) or int(g.data_size) != len(pts):
        return ("data_axes, data_shape, data_size and data_points agree", {"data_shape": shp, "axes": [len(a) for a in daxes], "points": len(pts)})
    rev = bool(g.axes_reversed)
    for idx in np.ndindex(*shp):
        flat = int(np.ravel_multi_index(idx, shp, order=g.order))
        coord = [None] * d
        for k, i in enumerate(idx):
            coord[d - 1 - k if rev else k] = float(daxes[k][i])
        if not np.allclose(pts[flat], coord, rtol=0, atol=max(tol, 1e-9 * min(level, 1.0))):
            return ("coordinate from data_axes at multi-index i == data_points[ravel(i, order)]",
                    {"index": list(idx), "flat": flat, "from_axes": coord, "data_point": pts[flat].tolist()})
    u = g.to_unstructured()
    if np.asarray(u.data_points).shape != pts.shape or not np.allclose(np.asarray(u.data_points, dtype=float), pts, rtol=0, atol=max(tol, 1e-9 * min(level, 1.0))):
        return ("to_unstructured keeps the data points (same coordinates at the same flat position)",
                {"max_difference": float(np.max(np.abs(np.asarray(u.data_points, dtype=float) - pts))) if np.asarray(u.data_points).shape == pts.shape else None})
    return None


def index_cases():
    out = []
    for nd in (1, 2, 3, 4):
        for shape in itertools.product((1, 2, 3), repeat=nd):
            out.append({"type": "index", "shape": list(shape)})
    return out


# ------------------------------------------------------------------------------------------------
# implementation runners
# ------------------------------------------------------------------------------------------------
def run_config(case):
    g = gu.build_grid(case["grid"])
    u = g.to_unstructured()
    return {
        "g": g, "u": u,
        "dims": list(g.dims), "inc": [bool(b) for b in g.axes_increase], "rev": bool(g.axes_reversed),
        "order": g.order, "loc": gu.LOC_NAMES[g.data_location],
        "axes": [np.asarray(a, dtype=float) for a in g.axes],
        "points": np.asarray(g.points, dtype=float), "cells": np.asarray(g.cells).tolist(),
        "centers": np.asarray(g.cell_centers, dtype=float),
        "data_axes": [np.asarray(a, dtype=float) for a in g.data_axes],
        "data_shape": [int(n) for n in g.data_shape], "data_size": int(g.data_size),
        "data_points": np.asarray(g.data_points, dtype=float),
        "point_count": int(g.point_count), "cell_count": int(g.cell_count), "mesh_dim": int(g.mesh_dim),
        "u_points": np.asarray(u.points, dtype=float), "u_centers": np.asarray(u.cell_centers, dtype=float),
        "u_data_points": np.asarray(u.data_points, dtype=float),
        "u_data_shape": [int(n) for n in u.data_shape], "u_data_size": int(u.data_size),
    }


def compare_config(case, impl, m):
    mg = gu.model_grid(case["grid"])
    checks = [
        ("flags", (impl["inc"], impl["rev"], impl["order"], impl["loc"]),
         (mg["inc"], mg["rev"], mg["order"], mg["loc"]), lambda a, b: a == b),
        ("axes", impl["axes"], [[[v, 1] for v in a] for a in mg["axes"]], gu.axes_close),
        ("dims", impl["dims"], m["dims"], lambda a, b: a == b),
        ("points", impl["points"], m["points"], gu.pts_close),
        ("cells", impl["cells"], m["cells"], lambda a, b: a == b),
        ("cell_centers", impl["centers"], m["centers"], gu.pts_close),
        ("data_axes", impl["data_axes"], m["data_axes"], gu.axes_close),
        ("data_shape", impl["data_shape"], m["data_shape"], lambda a, b: a == b),
        ("data_size", impl["data_size"], m["data_size"], lambda a, b: a == b),
        ("data_points", impl["data_points"], m["data_points"], gu.pts_close),
        ("point_count", impl["point_count"], m["point_count"], lambda a, b: a == b),
        ("cell_count", impl["cell_count"], m["cell_count"], lambda a, b: a == b),
        ("mesh_dim", impl["mesh_dim"], m["mesh_dim"], lambda a, b: a == b),
        ("unstructured.points", impl["u_points"], m["u_points"], gu.pts_close),
        ("unstructured.cell_centers", impl["u_centers"], m["u_centers"], gu.pts_close),
        ("unstructured.data_points", impl["u_data_points"], m["u_data_points"], gu.pts_close),
        ("unstructured.data_shape", impl["u_data_shape"], m["u_data_shape"], lambda a, b: a == b),
        ("unstructured.data_size", impl["u_data_size"], m["u_data_size"], lambda a, b: a == b),
    ]
    for name, a, b, eq in checks:
        if not eq(a, b):
            return {"observable": name, "impl": gu.short(a), "model": gu.short(b)}
    return None


def oracle_grid(g):
    """The first two sentences of the property on one real grid object; None or (required, observed)."""
    d = g.dim
    shp = tuple(int(n) for n in g.data_shape)
    pts = np.asarray(g.data_points, dtype=float)
    axes = [np.asarray(a, dtype=float) for a in g.data_axes]
    if len(shp) != d or len(axes) != d or [len(a) for a in axes] != list(shp):
        return ("data_axes has one axis per data array axis with the length of data_shape",
                {"data_shape": shp, "data_axes_lengths": [len(a) for a in axes]})
    if int(np.prod(shp)) != len(pts) or int(g.data_size) != len(pts):
        return ("prod(data_shape) == data_size == number of data points",
                {"data_shape": shp, "data_size": int(g.data_size), "data_points": len(pts)})
    rev = bool(g.axes_reversed)
    for idx in np.ndindex(*shp):
        flat = int(np.ravel_multi_index(idx, shp, order=g.order))
        coord = [None] * d
        for k, i in enumerate(idx):
            coord[d - 1 - k if rev else k] = float(axes[k][i])
        if not all(close(a, b) for a, b in zip(pts[flat].tolist(), coord)):
            return ("coordinate from data_axes at multi-index i == data_points[ravel(i, order)]",
                    {"index": list(idx), "flat": flat, "from_axes": coord, "data_point": pts[flat].tolist()})
    points = np.asarray(g.points, dtype=float)
    cells = np.asarray(g.cells)
    if cells.ndim != 2 or len(cells) != int(g.cell_count) or len(points) != int(g.point_count):
        return ("len(cells) == cell_count and len(points) == point_count",
                {"cells": list(cells.shape), "cell_count": int(g.cell_count), "points": len(points),
                 "point_count": int(g.point_count)})
    if cells.size and (cells.min() < 0 or cells.max() >= len(points)):
        return ("every cell references existing points", {"min": int(cells.min()), "max": int(cells.max()),
                                                           "point_count": len(points)})
    nodes = 2 ** int(g.mesh_dim)
    for j, row in enumerate(cells.tolist()):
        if len(row) != nodes or len(set(row)) != nodes:
            return ("every cell has 2**mesh_dim distinct nodes", {"cell": j, "nodes": row})
    cc = np.asarray(g.cell_centers, dtype=float)
    mean = np.array([points[row].mean(axis=0) for row in cells.tolist()])
    if mean.shape != cc.shape or not np.allclose(mean, cc, rtol=0, atol=1e-9):
        bad = int(np.argmax(np.abs(mean - cc).sum(axis=1))) if mean.shape == cc.shape else -1
        return ("cell centre == mean of the cell's nodes",
                {"cell": bad, "centre": cc[bad].tolist() if bad >= 0 else list(cc.shape),
                 "mean_of_nodes": mean[bad].tolist() if bad >= 0 else list(mean.shape)})
    return None


def oracle_cast(g):
    u = g.to_unstructured()
    pts = np.asarray(g.data_points, dtype=float)
    upts = np.asarray(u.data_points, dtype=float)
    obs = {"data_shape": list(u.data_shape), "data_size": int(u.data_size), "n_points": len(pts)}
    if upts.shape != pts.shape or not np.allclose(upts, pts, rtol=0, atol=1e-9):
        return ("to_unstructured keeps the data points (same coordinates at the same flat position)", obs)
    if tuple(u.data_shape) != (len(pts),) or int(u.data_size) != len(pts):
        return ("to_unstructured: data_shape == (number of data points,)", obs)
    if u.data_location != g.data_location or u.order != g.order:
        return ("to_unstructured keeps data location and order", obs)
    if not np.array_equal(np.asarray(u.cells), np.asarray(g.cells)) or not np.allclose(u.points, g.points):
        return ("to_unstructured keeps points and cells", obs)
    cells = np.asarray(u.cells)
    if cells.size and (cells.min() < 0 or cells.max() >= len(u.points)):
        return ("unstructured cast: every cell references existing points", obs)
    mean = np.array([np.asarray(u.points)[row].mean(axis=0) for row in cells.tolist()])
    if not np.allclose(mean, np.asarray(u.cell_centers), rtol=0, atol=1e-9):
        return ("unstructured cast: cell centre == mean of the cell's nodes", obs)
    return None


def oracle_config(case):
    g = gu.build_grid(case["grid"])
    return oracle_grid(g) or oracle_cast(g)


def apply_op(pool, op, spec):
    """one operation of a memo history on real grids; returns the observation"""
    x = pool[op[1]]
    if op[0] == "shape":
        return {"shape": [int(n) for n in x.data_shape]}
    if op[0] == "size":
        return {"size": int(x.data_size)}
    if op[0] == "points":
        return {"npoints": len(x.data_points)}
    if op[0] == "ucast":
        u = x.to_unstructured()
        return {"npoints": len(u.data_points)} if u.data_location == x.data_location else {"npoints": -1, "cast_location": str(u.data_location)}
    if op[0] == "set":
        try:
            x.data_location = gu.LOCS[op[2]]
            return "done"
        except ValueError:
            return "rejected"
    if op[0] == "copy":
        pool.append(x.copy())
        return "done"
    if op[0] == "deepcopy":
        pool.append(x.copy(deep=True))
        return "done"
    if op[0] == "cast":
        pool.append(x.to_rectilinear())
        return "done"
    raise ValueError(op)


def run_memo(case):
    pool = [gu.build_grid(case["grid"])]
    return [apply_op(pool, op, case["grid"]) for op in case["ops"]]


import copy as _copy

_ORDERS = [(0, 1, 2), (1, 0, 2), (2, 1, 0), (1, 2, 0), (2, 0, 1), (0, 2, 1)]


def oracle_memo(case):
    """second run of the same history; after every operation every object must show the shape, size and
    points of a freshly built grid with the object's current location"""
    spec = case["grid"]
    pool = [gu.build_grid(spec)]
    fresh = {}
    for n, op in enumerate(case["ops"]):
        ob = apply_op(pool, op, spec)
        if op[0] == "ucast":
            y = pool[op[1]]
            f = gu.build_grid(spec, loc=gu.LOC_NAMES[y.data_location])
            if ob != {"npoints": len(f.data_points)}:
                return ("casting to an unstructured grid preserves the data location and the data points of the grid as it is now",
                        {"after_op": n, "object": op[1], "location": gu.LOC_NAMES[y.data_location], "cast": ob,
                         "fresh_grid_data_points": len(f.data_points)})
        for k, y in enumerate(pool):
            loc = gu.LOC_NAMES[y.data_location]
            if loc not in fresh:
                f = gu.build_grid(spec, loc=loc)
                fresh[loc] = (tuple(int(v) for v in f.data_shape), int(f.data_size), len(f.data_points))
            exp = fresh[loc]
            # read from a deep copy (the object of the history is not touched: a read must not repair what the next read sees),
            # the three properties in an order that varies with the step
            z = _copy.deepcopy(y)
            got = [None, None, None]
            for which in _ORDERS[(n + k) % len(_ORDERS)]:
                got[which] = (tuple(int(v) for v in z.data_shape) if which == 0 else int(z.data_size) if which == 1 else len(z.data_points))
            got = tuple(got)
            if got != exp:
                return ("data_shape, data_size and data_points reflect the current data location",
                        {"after_op": n, "object": k, "location": loc,
                         "got": {"data_shape": list(got[0]), "data_size": got[1], "data_points": got[2]},
                         "fresh_grid": {"data_shape": list(exp[0]), "data_size": exp[1], "data_points": exp[2]}})
    return None


def run_index(case):
    sh = tuple(case["shape"])
    idx = [list(i) for i in np.ndindex(*sh)]
    size = int(np.prod(sh))
    return {"idx": idx,
            "ravelC": [int(np.ravel_multi_index(tuple(i), sh, order="C")) for i in idx],
            "ravelF": [int(np.ravel_multi_index(tuple(i), sh, order="F")) for i in idx],
            "unravelF": [[int(v) for v in np.unravel_index(k, sh, order="F")] for k in range(size)]}


# ------------------------------------------------------------------------------------------------
def model_request(case):
    if case["type"] == "config":
        return {"op": "c14", "grid": gu.model_grid(case["grid"])}
    if case["type"] == "memo":
        ops = [["copy", op[1]] if op[0] == "deepcopy" else ["points", op[1]] if op[0] == "ucast" else op for op in case["ops"]]
        return {"op": "c14memo", "grid": gu.model_grid(case["grid"]), "valid": gu.valid_locs(case["grid"]),
                "ops": ops}
    return {"op": "index", "shape": case["shape"]}


def nontrivial(case):
    if case["type"] == "numeric":
        return True
    if case["type"] == "config":
        dims = gu.spec_dims(case["grid"])
        return sum(1 for n in dims if n > 1) >= 1
    if case["type"] == "memo":
        kinds = [op[0] for op in case["ops"]]
        return "set" in kinds and ("shape" in kinds or "size" in kinds)
    return len(case["shape"]) > 1


def evaluate(case, model, res):
    """correspondence + oracle for one case"""
    t = case["type"]
    try:
        if t == "numeric":
            d, o = None, oracle_numeric(case)
        elif t == "config":
            impl = run_config(case)
            d = compare_config(case, impl, model)
            o = oracle_grid(impl["g"]) or oracle_cast(impl["g"])
        elif t == "memo":
            impl = run_memo(case)
            d = None if impl == model["obs"] else {"observable": "observations", "impl": impl, "model": model["obs"]}
            o = oracle_memo(case)
        else:
            impl = run_index(case)
            d = None
            for key in ("idx", "ravelC", "ravelF", "unravelF"):
                if impl[key] != model[key]:
                    d = {"observable": key, "impl": gu.short(impl[key]), "model": gu.short(model[key])}
                    break
            o = None
    except Exception as e:  # noqa: a crash of a public grid property is a failure of the property
        d = None
        o = ("grid properties can be read for every configuration", {"exception": f"{type(e).__name__}: {e}"[:300]})
    if d:
        res.diverge(f"grid/{t}/{d['observable']}", case, d.get("impl"), d.get("model"))
    if o:
        res.fail(case, o[0], o[1])


def count(case, res):
    t = case["type"]
    res.count("case_types", t)
    if t == "config":
        s = case["grid"]
        res.count("kind", s["kind"])
        res.count("dim", len(gu.spec_dims(s)))
        inc, rev, order, loc = gu.spec_flags(s)
        res.count("layout", f"{order}{'r' if rev else '-'}")
        res.count("location", loc)
        res.count("decreasing_axes", sum(1 for b in inc if not b))
        res.count("degenerate_axes", sum(1 for n in gu.spec_dims(s) if n == 1))
    elif t == "memo":
        res.count("memo_ops", n=len(case["ops"]))
        res.count("memo_kind", case["grid"]["kind"])


def corpus():
    return [
        # F7: read shape, change location, read again
        {"type": "memo", "grid": gu.make_spec("uniform", [3, 4], "F", False, [True, True], "cells"),
         "ops": [["shape", 0], ["size", 0], ["set", 0, "points"], ["shape", 0], ["size", 0], ["points", 0]]},
        {"type": "memo", "grid": gu.make_spec("uniform", [2, 3], "C", True, [True, False], "points"),
         "ops": [["size", 0], ["copy", 0], ["set", 1, "cells"], ["size", 1], ["shape", 1], ["shape", 0],
                 ["cast", 1], ["set", 2, "points"], ["shape", 2]]},
        {"type": "memo", "grid": {"kind": "esri", "ncols": 3, "nrows": 2, "cellsize": 1, "xll": 0, "yll": 0,
                                  "order": "C"},
         "ops": [["shape", 0], ["set", 0, "points"], ["shape", 0], ["deepcopy", 0], ["size", 1]]},
        {"type": "config", "grid": gu.make_spec("uniform", [3, 4], "C", True, [True, False], "cells")},
        {"type": "config", "grid": gu.make_spec("rect", [2, 3, 4], "C", False, [False, True, False], "cells")},
        {"type": "config", "grid": gu.make_spec("uniform", [3, 1, 2], "C", True, [True, True, False], "points")},
        {"type": "config", "grid": {"kind": "esri", "ncols": 3, "nrows": 2, "cellsize": 2, "xll": 3, "yll": -1,
                                    "order": "C"}},
    ]


def check_cases(cases, res):
    mcases = [c for c in cases if c["type"] != "numeric"]
    models = iter(common.lean_batch([model_request(c) for c in mcases]))
    for c in cases:
        m = None if c["type"] == "numeric" else next(models)
        res.case(c, nontrivial(c))
        count(c, res)
        evaluate(c, m, res)


def run(ctx, res):
    res.rule = ("grid configurations from the full product kind{uniform,rectilinear} x dims{1..4}^(1..3) x order x "
                "axes_reversed x per-axis direction x location plus all ESRI grids up to 4x4 x order (thorough: the "
                "whole product, quick: corpus + every 1-D/2-D/ESRI configuration + a seeded sample of 2000 3-D ones); random histories of 3-14 operations "
                "{read shape, read size, read points, set location, copy, deep copy, cast} on a pool of grid "
                "objects; every shape in {1,2,3}^(1..4) for the index maps; non-trivial = at least one "
                "non-degenerate axis / a history that reads after a location change; distinct by canonical hash")
    res.assumptions = [
        "coordinates are small integers (cell centres half-integers), exactly representable; rounding is not modelled",
        "numpy implements ravel/unravel/reshape/transpose/flip as the index maps of FinamModel/Index.lean "
        "(checked on every shape in {1,2,3}^(1..4))",
        "a length-1 axis has no direction: its axes_increase flag is always True",
    ]
    configs = list(all_configs())
    if ctx.tier == "thorough":
        sample = configs
        res.exhaustive = True
    else:
        low = [c for c in configs if len(gu.spec_dims(c["grid"])) < 3]
        high = [c for c in configs if len(gu.spec_dims(c["grid"])) == 3]
        sample = low + ctx.rng.sample(high, 2000)
    memo = [gen_memo_case(ctx.rng) for _ in range(ctx.n(1000, 4000))]
    numeric = [gen_numeric_case(ctx.rng) for _ in range(ctx.n(400, 3000))]
    check_cases(corpus() + index_cases() + sample + memo + numeric, res)


def search(ctx, res, divergences, broken):
    cases = [d["case"] for d in divergences if d.get("case")] + corpus()
    cases += list(all_configs())
    cases += [gen_memo_case(ctx.rng) for _ in range(ctx.n(3000, 20000))]
    cases += [gen_numeric_case(ctx.rng) for _ in range(ctx.n(1000, 5000))]
    for c in cases:
        if c["type"] == "index":
            continue
        res.case(c, nontrivial(c))
        try:
            o = oracle_numeric(c) if c["type"] == "numeric" else oracle_config(c) if c["type"] == "config" else oracle_memo(c)
        except Exception as e:  # noqa
            o = ("grid properties can be read for every configuration", {"exception": f"{type(e).__name__}: {e}"[:300]})
        if o:
            res.fail(c, o[0], o[1])
            return


def shrink(ctx, f):
    case = f["case"]
    if case["type"] != "memo":
        return f
    ops = list(case["ops"])

    def fails(ops_):
        trial = {"type": "memo", "grid": case["grid"], "ops": ops_}
        try:
            return oracle_memo(trial)
        except Exception:
            return None

    changed = True
    while changed:
        changed = False
        for i in range(len(ops)):
            trial = ops[:i] + ops[i + 1:]
            # dropping a copy would shift object numbers: only drop when no later op refers to a later object
            if ops[i][0] in ("copy", "deepcopy", "cast"):
                continue
            o = fails(trial)
            if o:
                ops = trial
                f = {"case": {"type": "memo", "grid": case["grid"], "ops": ops}, "required": o[0], "observed": o[1],
                     "signature": f.get("signature")}
                changed = True
                break
    return f


def replay(ctx, rp):
    case = rp.get("input") or (rp.get("diverging_case") or {}).get("case")
    res = common.Result()
    m = None if case["type"] == "numeric" else common.lean_batch([model_request(case)])[0]
    evaluate(case, m, res)
    return {"fails": bool(res.failures), "oracle": res.failures[:1], "divergences": res.divergences[:1]}
