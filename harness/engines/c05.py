"""C05 — the coupling outcome is independent of listing and linking order.

Two families of cases, each run through the real package under several permutations of the component
list *and* of the order in which the links are created:

* run phase (`sched`): compositions of time-stepped and pull-based harness components (scripted varying
  steps, start offsets, adapter chains over Scale / Linear / Step / Next / Previous / Avg / Sum /
  DelayFixed / DelayToPull, delay-resolved rings); components publish values that depend on what they
  pulled (`mix`), so a value served wrongly once propagates.  Observables per permutation: success or
  error class, final time of every component, the full (time, values) series received by every consumer,
  final statuses.
* connect phase (`connect`): the composition specs of the C06 engine (declared / rule-composed /
  provided infos, initial pulls, staged data, cache on/off, different start times, adapter chains);
  observables per permutation: outcome class, set of reported components, the exchanged-item pattern
  of every connector, the content of every exchanged Info, the values of the initial pulls.

Correspondence: every permutation is also run through the Lean model (`Finam.runLoop` for the listing
as given, `Connect.connectE` for the connect specs) and compared with the implementation (final times,
outcome; statuses after every call for connect).  The model's own answers are compared across
permutations as well (they are equal by `run_confluent` / `connect_order_independent`; a difference there
would be a machinery error, not a violation).
Oracle (independent of the model): all permutations of one composition give the same observables.
"""
import itertools
import json

from . import sched_common as sc
from . import c01 as c01e
from . import c06 as c06e
from . import pkgorder
from .. import common
from ..schedlib import model_request, run_impl

MODULES = ["Sched", "SchedLemmas", "Connect", "ConnectLemmas", "Output", "OutputLemmas", "Props.C02", "Props.C05Run", "Props.C05Values"]
GEN_OBLIGATIONS = sc.GEN_OBLIGATIONS
THEOREM_DEPS = ["C05Run", "C05Values"]

SIG_DOWHILE = "end-not-after-start-tie"
SIG_FANOUT = "pull-fanout-stateful-adapter"
KINDS = ["scale", "lin", "step", "next", "prev", "avg", "sum", "dfix", "dpull"]  # no push-time-dependent adapter


# ----------------------------------------------------------------------------------------------
# run phase
# ----------------------------------------------------------------------------------------------
def perms(rng, n, k):
    if n <= 3:
        return [list(p) for p in itertools.permutations(range(n))][:max(k, 6)]
    out = [list(range(n)), list(range(n))[::-1]]
    tries = 0
    while len(out) < k and tries < 50:
        tries += 1
        p = list(range(n))
        rng.shuffle(p)
        if p not in out:
            out.append(p)
    return out


def gen_sched(ctx):
    rng = ctx.rng
    r = rng.random()
    if r < 0.55:
        spec = sc.gen_dag(rng, kinds=KINDS, statics=False)
    elif r < 0.75:
        spec = sc.gen_dag(rng, kinds=["scale", "lin", "prev", "dfix", "next"], pull_comps=False, statics=False, max_chain=2)
    elif r < 0.95:
        spec = sc.gen_ring(rng, resolved=True)
        for _ in range(20):
            if spec["ring"]["mode"] != "dpush":
                break
            spec = sc.gen_ring(rng, resolved=True)
        if spec["ring"]["mode"] == "dpush":
            spec = sc.gen_dag(rng, kinds=KINDS, statics=False)
    else:
        # boundary: end time on / before the start times
        spec = sc.gen_dag(rng, kinds=["scale", "lin"], pull_comps=False, statics=False, offsets=rng.random() < 0.5)
        spec["end"] = rng.choice([0, 0, 1, 2, 3])
    if r < 0.75 and rng.random() < 0.3:
        # an adapter (pass-through or fixed delay) that fans out to two consumers, next to sibling links of the same output
        spec = sc.add_branching_adapter(rng, spec)
    if rng.random() < 0.08:
        # one DelayFixed object serving two consumers that start at different times (what the adapter clamps at must not
        # depend on which of them exchanged its metadata last)
        spec = sc.normalise({"comps": [{"kind": "time", "start": 0, "steps": [rng.choice([1, 1, 2])]},
                                       {"kind": "time", "start": rng.choice([0, 0, 1]), "steps": [rng.choice([1, 2, 3])]},
                                       {"kind": "time", "start": rng.choice([2, 3, 4, 5]), "steps": [rng.choice([1, 2, 3])]}],
                             "links": [{"src": 0, "out": 0, "dst": 1, "ads": [["dfix", rng.randint(1, 4)]]},
                                       {"src": 0, "out": 0, "dst": 2, "ads": rng.choice([[], [], [["scale"]]]), "via": 0}],
                             "order": [0, 1, 2], "end": rng.randint(10, 20)})
    for c in spec["comps"]:
        if c["kind"] == "time":
            c["mix"] = True
    if rng.random() < 0.08:
        # a component that declares itself FINISHED before the end time (as CsvReader does at its last row), level with
        # the others: whether it matters must not depend on the listing order
        tcs = [c for c in spec["comps"] if c["kind"] == "time"]
        c = rng.choice(tcs)
        c["finish_at"] = c["start"] + rng.randint(1, max(2, spec["end"] - 1))
    spec.pop("order", None)
    return spec


def observe(impl):
    return {"error": impl["error"], "phase": impl["phase"] if impl["error"] else None,
            "final": [sc.ih(x) if x is not None else None for x in impl["final"]],
            "series": {str(k): v for k, v in sorted(impl["series"].items())},
            "status": impl["status"]}


def first_diff(a, b):
    for k in ("error", "phase", "final", "status"):
        if a[k] != b[k]:
            return {"what": k, "first": a[k], "other": b[k]}
    for c in sorted(set(a["series"]) | set(b["series"])):
        sa, sb = a["series"].get(c, []), b["series"].get(c, [])
        if sa != sb:
            i = next((i for i, (x, y) in enumerate(zip(sa, sb)) if x != y), min(len(sa), len(sb)))
            return {"what": f"series received by component {c}", "index": i, "first": sa[i:i + 2], "other": sb[i:i + 2]}
    return None


def correspond_outcome(spec, impl, model, order):
    """model vs implementation on the observables C05 speaks about: outcome class and final times (the update
    *sequence* is C02's business: a different tie-break leaves C05 intact)"""
    if impl["error"] is None:
        if model["end"] != "done":
            return {"what": "outcome", "impl": "completed", "model": model["end"]}
        fin = [sc.ih(x) for x in impl["final"]]
        mfin = {order[i]: t for i, t in enumerate(model["final"])}
        for c, cs in enumerate(spec["comps"]):
            if cs["kind"] == "time" and fin[c] != mfin[c]:
                return {"what": "final times", "impl": fin, "model": mfin}
        return None
    if impl["phase"] != "run":
        return {"what": "error outside the run phase", "impl": [impl["phase"], impl["error"], impl.get("msg")]}
    if model["end"] != impl["error"]:
        return {"what": "outcome", "impl": [impl["error"], impl.get("msg")], "model": model["end"]}
    return None


def dowhile_tie(spec):
    """recorded finding: with an end time at or before every start time the one unconditional update of the
    run loop goes to the first-listed least-advanced component"""
    starts = [c["start"] for c in spec["comps"] if c["kind"] == "time"]
    return bool(starts) and spec["end"] <= min(starts) and starts.count(min(starts)) > 1


def fanout_stateful(spec):
    """recorded finding: a pull-based component with more than one consumer path forwards the requests of all of them
    through its single input; an adapter upstream of it whose answer depends on its own request history (AvgOverTime /
    SumOverTime integrate from the previous request, DelayToPull looks back n requests) then serves values that depend
    on the order in which the consumers happen to be updated"""
    comps, links = spec["comps"], spec["links"]

    def stateful_upstream(c, seen=()):
        for l in links:
            if l["dst"] == c:
                if any(a[0] in ("avg", "sum", "dpull") for a in l["ads"]):
                    return True
                if comps[l["src"]]["kind"] == "pull" and l["src"] not in seen and stateful_upstream(l["src"], seen + (c,)):
                    return True
        return False

    def paths_out(c, seen=()):
        n = 0
        for l in links:
            if l["src"] == c:
                if comps[l["dst"]]["kind"] == "pull" and l["dst"] not in seen:
                    n += paths_out(l["dst"], seen + (c,))
                else:
                    n += 1
        return n

    return any(cs["kind"] == "pull" and paths_out(i) > 1 and stateful_upstream(i) for i, cs in enumerate(comps))


def other_finding(spec, impls):
    for impl in impls:
        if impl["error"] is not None:
            s = c01e.classify(spec, impl)
            if s:
                return s
    return None


def variants(ctx, spec, k):
    n = len(spec["comps"])
    nl = len(spec["links"])
    out = []
    for p in perms(ctx.rng, n, k):
        lo = list(range(nl))
        out.append((p, lo))
    # permutations of link creation (under the identity and a random listing)
    for _ in range(2 if nl > 1 else 0):
        lo = list(range(nl))
        ctx.rng.shuffle(lo)
        out.append((ctx.rng.choice(out)[0], lo))
    if nl > 1:
        out.append((list(range(n)), list(range(nl))[::-1]))
    return out


def run_variant(spec, p, lo):
    s = dict(spec)
    s["order"] = p
    s["link_order"] = lo
    return s, run_impl(s)


def check_sched(ctx, spec, res, k, do_model=True):
    vs = variants(ctx, spec, k)
    runs = []
    for p, lo in vs:
        s, impl = run_variant(spec, p, lo)
        runs.append((s, impl))
        if impl["error"] == "timeout":
            break
    nt = any(len(impl["updates"]) >= 3 and len({u for u, _t in impl["updates"]}) >= 2 for _s, impl in runs)
    case = sc.slim(spec)
    case["variants"] = [[p, lo] for p, lo in vs]
    res.case(case, nt)
    res.count("family", "run")
    res.count("components", len(spec["comps"]))
    res.count("variants_per_case", len(vs))
    res.count("outcome", runs[0][1]["error"] or "completed")
    for l in spec["links"]:
        for a in l["ads"]:
            res.count("adapter_kinds", a[0])
    ex = other_finding(spec, [impl for _s, impl in runs])
    if ex:
        res.count("excluded_other_property_finding", ex)
        return
    if any(impl["error"] == "timeout" for _s, impl in runs):
        res.count("timeouts")
        return
    base = observe(runs[0][1])
    failed = False
    for s, impl in runs[1:]:
        d = first_diff(base, observe(impl))
        if d:
            sig = SIG_DOWHILE if dowhile_tie(spec) and d["what"] in ("final", "status") or (dowhile_tie(spec) and d["what"].startswith("series")) else None
            if sig is None and d["what"].startswith("series") and fanout_stateful(spec):
                sig = SIG_FANOUT
            res.fail({"spec": sc.slim(spec), "first": [runs[0][0]["order"], runs[0][0]["link_order"]],
                      "other": [s["order"], s["link_order"]]},
                     "all permutations of the component list and of link creation give the same outcome, final times and received series",
                     d, sig)
            failed = True
            break
    if failed or not do_model:
        return
    # correspondence with the Lean run loop under the same listing (`runLoopOrd`: indices as in the spec, the
    # listing as a parameter), and with `runLoop` on the re-indexed composition for the first variant
    base = dict(spec)
    base["order"] = list(range(len(spec["comps"])))
    breq, _ = model_request(base)
    reqs = []
    for s, _impl in runs:
        r = dict(breq)
        r["op"] = "sched_run_ord"
        r["listing"] = s["order"]
        reqs.append(r)
    r0, o0 = model_request(runs[0][0])
    models = common.lean_batch(reqs + [r0])
    ident = list(range(len(spec["comps"])))
    finals = []
    for (s, impl), m in zip(runs, models):
        d = correspond_outcome(s, impl, m, ident)
        if d:
            res.diverge("sched/" + d["what"], s, d, None)
            return
        finals.append((m["end"], m["final"]))
    d = correspond_outcome(runs[0][0], runs[0][1], models[-1], o0)
    if d:
        res.diverge("sched/reindexed " + d["what"], runs[0][0], d, None)
        return
    if any(f != finals[0] for f in finals[1:]) and not dowhile_tie(spec):
        res.diverge("model/order-dependence", case, None, finals)


# ----------------------------------------------------------------------------------------------
# connect phase
# ----------------------------------------------------------------------------------------------
def observe_connect(impl):
    return {"outcome": impl["outcome"], "err": impl["err"], "names": sorted(impl["names"]) if impl["names"] else impl["names"],
            "comps": [{k: c[k] for k in ("in_infos", "out_infos", "in_data", "infos_pushed", "data_pushed", "values", "info_repr")}
                      for c in impl["comps"]]}


def _no_refine(spec):
    """a producer that hands over a newer state in every connect call publishes a value that depends on the number of
    calls made before — on the listing order, by construction of the harness component; outside C05's statement"""
    for cs in spec["comps"]:
        for y in cs["outs"]:
            y.pop("refine", None)
    return spec


def check_connect(ctx, spec, res, k, do_model=True):
    n = len(spec["comps"])
    nl = sum(len(cs["ins"]) for cs in spec["comps"])
    orders = c06e.gen_orders(ctx.rng, n, k)
    vs = [(o, None) for o in orders]
    if nl > 1:
        for _ in range(2):
            lo = list(range(nl))
            ctx.rng.shuffle(lo)
            vs.append((ctx.rng.choice(orders), lo))
    runs = [(o, lo, c06e.run_impl(spec, o, lo)) for o, lo in vs]
    case = dict(spec)
    case["variants"] = [[o, lo] for o, lo in vs]
    res.case(case, c06e.is_nontrivial(spec))
    res.count("family", "connect")
    res.count("connect_outcome", runs[0][2]["outcome"])
    res.count("variants_per_case", len(vs))
    base = observe_connect(runs[0][2])
    for o, lo, impl in runs[1:]:
        ob = observe_connect(impl)
        if ob != base:
            what = next(k for k in ("outcome", "err", "names", "comps") if ob[k] != base[k])
            detail = {"what": what, "first": base[what], "other": ob[what]}
            if what == "comps":
                c = next(i for i, (a, b) in enumerate(zip(base["comps"], ob["comps"])) if a != b)
                key = next(kk for kk in base["comps"][c] if base["comps"][c][kk] != ob["comps"][c][kk])
                detail = {"what": f"{key} of component {c}", "first": base["comps"][c][key], "other": ob["comps"][c][key]}
            res.fail({"connect_spec": spec, "first": [runs[0][0], runs[0][1]], "other": [o, lo]},
                     "connect() gives the same outcome, the same exchanged metadata and the same initial data under every listing and linking order",
                     detail, None)
            return
    if not do_model:
        return
    models = common.lean_batch([c06e.model_request(spec, o) for o, _lo, _i in runs])
    for (o, lo, impl), m in zip(runs, models):
        d = c06e.compare(spec, impl, m)
        if d:
            cs = dict(spec)
            cs["order"] = o
            res.diverge("connect/" + d["what"].split(" of ")[0], cs, d, {kk: m.get(kk) for kk in ("outcome", "names", "err")})
            return
    key = lambda m: (m["outcome"], sorted(m.get("names") or []), json.dumps([{k2: c[k2] for k2 in ("in_infos", "out_infos", "in_data", "infos_pushed", "data_pushed")} for c in m["comps"]]))
    if any(key(m) != key(models[0]) for m in models[1:]):
        res.diverge("model/connect-order-dependence", case, None, [m["outcome"] for m in models])


# ----------------------------------------------------------------------------------------------
# engine interface
# ----------------------------------------------------------------------------------------------
def corpus():
    return [
        # two equally advanced producers feeding one consumer through interpolation: tie-breaking decides the update order
        {"comps": [{"kind": "time", "start": 0, "steps": [2], "mix": True}, {"kind": "time", "start": 0, "steps": [2], "mix": True},
                   {"kind": "time", "start": 0, "steps": [3], "mix": True}],
         "links": [{"src": 0, "out": 0, "dst": 2, "ads": [["lin"]]}, {"src": 1, "out": 0, "dst": 2, "ads": []},
                   {"src": 0, "out": 0, "dst": 1, "ads": [["dfix", 2]]}], "end": 13},
        # fan-out of one output to consumers of different pace (per-target bookkeeping in exchange order)
        {"comps": [{"kind": "time", "start": 0, "steps": [1], "mix": True}, {"kind": "time", "start": 0, "steps": [4], "mix": True},
                   {"kind": "time", "start": 1, "steps": [3, 1], "mix": True}],
         "links": [{"src": 0, "out": 0, "dst": 1, "ads": []}, {"src": 0, "out": 0, "dst": 2, "ads": [["prev"]]},
                   {"src": 0, "out": 0, "dst": 2, "ads": []}], "end": 11},
        # delay-resolved ring
        {"comps": [{"kind": "time", "start": 0, "steps": [2], "mix": True}, {"kind": "time", "start": 0, "steps": [3], "mix": True}],
         "links": [{"src": 0, "out": 0, "dst": 1, "ads": [["dfix", 3]]}, {"src": 1, "out": 0, "dst": 0, "ads": [["dfix", 2]]}],
         "end": 12},
    ]


def run(ctx, res):
    res.rule = ("run family: random DAGs and delay-resolved rings of 2-5 harness components (time-stepped with varying "
                "scripted steps and start offsets, pull-based), chains of 0-3 adapters over {Scale, Linear/Step/Next/Previous/"
                "Avg/Sum, DelayFixed, DelayToPull}, published values depending on pulled values; every composition under all "
                "listings (<= 3 components) or a sample, plus 2-3 permutations of link creation. connect family: C06's "
                "composition specs under 4-6 listings and 2 link-creation orders. non-trivial = >= 3 updates of >= 2 "
                "components / a non-declared info or an initial pull; distinct by canonical hash of spec + variants")
    res.assumptions = ["domain of the property: producers declare units and grids; no push-time-dependent adapter (DelayToPush) and "
                       "no bare NoDependencyAdapter on the links",
                       "compositions that run into a finding recorded for C01 (integration-zero-length-repeat, pull-fanout-eviction) "
                       "are classified there and not compared",
                       "relativedelta steps are not modelled"]
    for spec in corpus():
        check_sched(ctx, spec, res, 6)
    for _ in range(ctx.n(90, 1500)):
        spec = gen_sched(ctx)
        check_sched(ctx, spec, res, ctx.n(4, 8))
    for spec in c06e.corpus():
        check_connect(ctx, spec, res, 6)
    for _ in range(ctx.n(160, 1500)):
        spec = _no_refine(c06e.gen_case(ctx.rng))
        check_connect(ctx, spec, res, ctx.n(4, 6))
    # the package's own callback components, with callbacks that count their calls, under all listings
    for _ in range(ctx.n(40, 300)):
        c = pkgorder.gen(ctx.rng)
        res.case(c, True)
        res.count("part", "pkg-components")
        o = pkgorder.check(c)
        if o:
            res.fail(c, o[0], o[1])


def search(ctx, res, divergences, broken):
    for _ in range(150):
        c = pkgorder.gen(ctx.rng)
        res.case(c, True)
        o = pkgorder.check(c)
        if o:
            res.fail(c, o[0], o[1])
            return
    for d in divergences:
        c = d.get("case") or {}
        if "comps" in c and "links" in c:
            check_sched(ctx, {k: v for k, v in c.items() if k not in ("order", "link_order", "variants")}, res, 8, do_model=False)
        if res.failures and res.failures[-1].get("signature") is None:
            return
    for i in range(ctx.n(500, 6000)):
        if i % 3 == 2:
            check_connect(ctx, _no_refine(c06e.gen_case(ctx.rng)), res, 6, do_model=False)
        else:
            check_sched(ctx, gen_sched(ctx), res, 8, do_model=False)
        if any(f.get("signature") is None for f in res.failures):
            return


def _differs(case):
    if "spec" in case:
        spec = case["spec"]
        a = run_variant(spec, *case["first"])[1]
        b = run_variant(spec, *case["other"])[1]
        if other_finding(spec, [a, b]):
            return None
        return first_diff(observe(a), observe(b))
    spec = case["connect_spec"]
    a = observe_connect(c06e.run_impl(spec, *case["first"]))
    b = observe_connect(c06e.run_impl(spec, *case["other"]))
    return None if a == b else {"what": "connect observables differ", "first": a["outcome"], "other": b["outcome"]}


def shrink(ctx, f):
    case = f["case"]
    if case.get("part") == "pkg":
        return f
    if "spec" not in case:
        return f
    sig = f.get("signature")
    first, other = case["first"], case["other"]

    def still(t):
        # keep the two permutations when the component / link count is unchanged; otherwise compare identity vs reversed
        n, nl = len(t["comps"]), len(t["links"])
        pairs = []
        if n == len(first[0]) and nl == len(first[1]):
            pairs.append((first, other))
        pairs.append(([list(range(n)), list(range(nl))], [list(range(n))[::-1], list(range(nl))]))
        pairs.append(([list(range(n)), list(range(nl))], [list(range(n)), list(range(nl))[::-1]]))
        for a, b in pairs:
            c = {"spec": t, "first": a, "other": b}
            try:
                if _differs(c) and (dowhile_tie(t) == (sig == SIG_DOWHILE)) and (fanout_stateful(t) == (sig == SIG_FANOUT) or sig == SIG_DOWHILE):
                    still.last = c
                    return True
            except Exception:  # noqa
                pass
        return False

    still.last = None
    base = {k: v for k, v in case["spec"].items() if k not in ("order", "link_order")}
    base["order"] = list(range(len(base["comps"])))
    small = sc.shrink_spec(base, still)
    if still.last is not None and still(small):
        c = still.last
        c["spec"].pop("order", None)
        return {"case": c, "required": f["required"], "observed": _differs(c), "signature": sig}
    return f


def replay(ctx, rp):
    case = rp.get("input")
    if case is not None and case.get("part") == "pkg":
        o = pkgorder.check(case)
        return {"fails": bool(o), "difference": o}
    if case is None:
        d = (rp.get("diverging_case") or {}).get("case") or {}
        if "links" in d:
            spec = {k: v for k, v in d.items() if k not in ("order", "link_order", "variants")}
            n, nl = len(spec["comps"]), len(spec["links"])
            case = {"spec": spec, "first": [list(range(n)), list(range(nl))], "other": [list(range(n))[::-1], list(range(nl))[::-1]]}
        else:
            return {"fails": False, "note": "nothing to replay"}
    d = _differs(case)
    known = "spec" in case and (dowhile_tie(case["spec"]) or fanout_stateful(case["spec"]))
    return {"fails": bool(d) and not known, "difference": d, "known_finding": bool(d and known)}


def _known_dowhile(ctx):
    spec = {"comps": [{"kind": "time", "start": 0, "steps": [2]}, {"kind": "time", "start": 0, "steps": [3]}], "links": [], "end": 0}
    a = run_variant(spec, [0, 1], [])[1]
    b = run_variant(spec, [1, 0], [])[1]
    return first_diff(observe(a), observe(b)) is not None


def _known_fanout(ctx):
    spec = {"comps": [{"kind": "time", "start": 0, "steps": [8], "mix": True}, {"kind": "pull", "nout": 2},
                      {"kind": "time", "start": 0, "steps": [4, 3], "mix": True}, {"kind": "time", "start": 0, "steps": [6, 3], "mix": True}],
            "links": [{"src": 0, "out": 0, "dst": 1, "ads": [["sum"]]}, {"src": 1, "out": 0, "dst": 2, "ads": []},
                      {"src": 1, "out": 1, "dst": 3, "ads": []}], "end": 4}
    a = run_variant(spec, [0, 1, 2, 3], [0, 1, 2])[1]
    b = run_variant(spec, [3, 2, 1, 0], [0, 1, 2])[1]
    return first_diff(observe(a), observe(b)) is not None


KNOWN_REPRO = {SIG_DOWHILE: _known_dowhile, SIG_FANOUT: _known_fanout}
