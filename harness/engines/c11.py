"""C11 — the time interpolation adapters equal their mathematical definition.

Correspondence: random irregular publication histories and non-decreasing request sequences are run
through a real `Output >> {NextTime, PreviousTime, LinearTime, StepTime(k/8)} >> Input` link (scalar
and small gridded payloads) and through `Finam.TA.stepImpl` of the Lean model (once per grid cell).
Observables: every pull's answer (values against the model's exact rationals with `fmutil.close`,
or the error class) and `len(adapter.data)` after every event.
Oracle (independent of the model): (1) a pure-Python definition of next/previous/linear/step on the
*full* publication history in exact `fractions.Fraction` arithmetic; (2) bit-exact equality with the
published value at publication times; (3) a time error outside the published range and none inside;
(4) the same history through a real adapter whose `_clear_cached_data` is disabled must give
identical answers (discarding buffer entries never changes a later result).
"""
from fractions import Fraction as F

import numpy as np

from .. import common
from . import spillmask
import os
from ..fmutil import T, ad, close, err_class, fm

MODULES = ["TimeAdapters", "TimeAdaptersLemmas"]
GEN_OBLIGATIONS = ["caching_push_based"]
KINDS = ["next", "prev", "linear", "step"]
SHAPES = {"scalar": None, "g2": (3,), "g22": (3, 3),   # grid dims (points) -> cells 2 / 2x2
          "g1": (2, 2), "g213": (3, 2, 4)}              # one cell; one layer of cells: data shapes (1, 1) and (2, 1, 3)


def ncells(shape):
    return {"scalar": 1, "g2": 2, "g22": 4, "g1": 1, "g213": 6}[shape]


TINY, OFFSET = 2.0 ** -30, 2.0 ** 17


def _magnify(case, rng):
    """magnitude families (exact dyadic payloads, so the model's rationals stay exact): very small values (k * 2^-30, e.g.
    conductivities in m/s) and small changes on a large level (2^17 + k / 8, e.g. a pressure in Pa) — differences far below
    / relative changes near the default tolerances of `np.isclose` / `np.allclose`"""
    r = rng.random()
    mag = "tiny" if r < 0.1 else "offset" if r < 0.2 else None
    if mag is None:
        return case
    for ev in case["events"]:
        if ev[0] == "push":
            ev[2] = [(v * TINY if mag == "tiny" else OFFSET + v / 8.0) for v in ev[2]]
    case["mag"] = mag
    return case


def _unit(case):
    """the magnitude answers are compared at"""
    return TINY if case.get("mag") == "tiny" else 1.0


def gen_case(rng, max_events=40):
    kind = rng.choice(KINDS)
    pos = rng.randrange(0, 9)
    shape = rng.choices(list(SHAPES), weights=[6, 2, 2, 1, 1])[0]
    nc = ncells(shape)
    scale = rng.choice([1, 8, 8, 1000, 3_600_000_000, 86_400_000_000])
    gaps = rng.choice([[1, 2, 3, 5], [8, 16, 24], [4, 8, 12, 40], [7, 9], [8]])
    t = rng.randrange(0, 4) * scale
    pubs, events, last = [], [], None
    # 15%: non-dyadic float payloads (0.1 + 1.0 * (0.3 - 0.1) != 0.3: "exactly the published value at publication times")
    floats = rng.random() < 0.15
    nev = rng.randrange(4, max_events)
    if rng.random() < 0.05:
        events.append(["pull", t])  # nothing published yet
    for _ in range(nev):
        if not pubs or rng.random() < 0.4:
            t = t + rng.choice(gaps) * scale if pubs else t
            pubs.append(t)
            events.append(["push", t, [rng.choice([0.1, 0.2, 0.3, 0.7, 1.1, 2.5, -0.3]) if floats else rng.randrange(-9, 10) for _ in range(nc)]])
            continue
        lo = last if last is not None else pubs[0]
        mode = rng.random()
        if mode < 0.25:  # exactly on a publication
            cands = [p for p in pubs if p >= lo]
            tt = rng.choice(cands) if cands else lo
        elif mode < 0.55:  # at a dyadic position k/8 inside an interval at or after the last request
            ivs = [(a, b) for a, b in zip(pubs, pubs[1:]) if b > lo]
            if ivs:
                a, b = rng.choice(ivs[:3]) if rng.random() < 0.7 else rng.choice(ivs)
                k = pos if rng.random() < 0.5 else rng.randrange(0, 9)
                tt = a + (b - a) * k // 8
                if rng.random() < 0.3:
                    tt += rng.choice([-1, 1])
                tt = max(tt, lo)
            else:
                tt = lo
        elif mode < 0.85:  # anywhere up to the newest publication (across several publications)
            hi = pubs[-1]
            tt = rng.randrange(lo, hi + 1) if hi >= lo else lo
        elif mode < 0.93:  # beyond the newest publication
            tt = max(lo, pubs[-1]) + rng.choice([1, scale, 3 * scale])
        elif mode < 0.97 and last is None:  # before the oldest publication
            tt = pubs[0] - rng.choice([1, scale])
        else:
            tt = lo  # repeat
        events.append(["pull", tt])
        if pubs[0] <= tt <= pubs[-1]:
            last = tt
    return _magnify({"kind": kind, "pos": [pos, 8], "shape": shape, "events": events}, rng)


def make_adapter(case, no_evict=False):
    cls = {"next": ad.NextTime, "prev": ad.PreviousTime, "linear": ad.LinearTime, "step": ad.StepTime}[case["kind"]]
    if no_evict:
        cls = type("NoEvict" + cls.__name__, (cls,), {"_clear_cached_data": lambda self, time: None})
    if case["kind"] == "step":
        return cls(step=case["pos"][0] / case["pos"][1])
    return cls()


def build(case, no_evict=False):
    dims = SHAPES[case["shape"]]
    grid = fm.NoGrid() if dims is None else fm.UniformGrid(dims)
    out = fm.Output(name="out", info=fm.Info(time=T(0), grid=grid, units="m"))
    inp = fm.Input(name="in", info=fm.Info(time=None, grid=None, units=None))
    a = make_adapter(case, no_evict)
    out >> a >> inp
    inp.ping()
    inp.exchange_info()
    dshape = () if dims is None else tuple(d - 1 for d in dims)
    return out, a, inp, dshape


def run_impl(case, no_evict=False):
    out, a, inp, dshape = build(case, no_evict)
    answers, lens = [], []
    for ev in case["events"]:
        if ev[0] == "push":
            out.push_data(np.array(ev[2], dtype=float).reshape(dshape), T(ev[1]))
            answers.append(None)
        else:
            try:
                v = inp.pull_data(T(ev[1]))
                answers.append({"ok": [float(x) for x in np.asarray(v.magnitude).reshape(-1)]})
            except Exception as e:  # noqa
                answers.append({"err": err_class(e)})
        lens.append(len(a.data))
    return {"answers": answers, "lens": lens}


def model_request(case):
    def rat(v):
        q = F(v)  # exact also for a float payload
        return [q.numerator, q.denominator]
    evs = [[e[0], e[1], [rat(v) for v in e[2]]] if e[0] == "push" else e for e in case["events"]]
    return {"op": "c11", "kind": case["kind"], "pos": case["pos"], "events": evs}


def same_answer(a, m, u=1.0):
    """implementation answer (floats) against the model's exact rationals (compared at the magnitude `u` of the payloads)"""
    if a is None or m is None:
        return a is None and m is None
    if "err" in a or "err" in m:
        return a.get("err") == m.get("err")
    return len(a["ok"]) == len(m["ok"]) and all(close(x / u, q[0] / q[1] / u) for x, q in zip(a["ok"], m["ok"]))


def compare(case, impl, model):
    for i, ev in enumerate(case["events"]):
        if not same_answer(impl["answers"][i], model["impl"][i], _unit(case)):
            return {"event": i, "impl": impl["answers"][i], "model": model["impl"][i]}
        if impl["lens"][i] != model["lens"][i]:
            return {"event": i, "impl_len": impl["lens"][i], "model_len": model["lens"][i]}
    return None


# ---------------------------------------------------------------------------------------------
# oracle: the property statement evaluated on the implementation, exact rational reference
# ---------------------------------------------------------------------------------------------
def definition(kind, pos, hist, t, cell):
    """pure-Python mathematical definition on the full history [(time, [values])]"""
    le = [e for e in hist if e[0] <= t]
    ge = [e for e in hist if e[0] >= t]
    lo, hi = le[-1], ge[0]
    vlo, vhi = F(lo[1][cell]), F(hi[1][cell])
    if lo[0] == hi[0]:
        return vlo
    if kind == "next":
        return vhi
    if kind == "prev":
        return vlo
    w = F(t - lo[0], hi[0] - lo[0])
    if kind == "linear":
        return vlo + w * (vhi - vlo)
    return vhi if w > F(*pos) else vlo


def oracle(case, impl):
    kind, pos, nc = case["kind"], case["pos"], ncells(case["shape"])
    hist, last = [], None
    for i, ev in enumerate(case["events"]):
        if ev[0] == "push":
            hist.append((ev[1], ev[2]))
            continue
        t, a = ev[1], impl["answers"][i]
        if last is not None and t < last:
            continue  # outside the quantifier (requests must not decrease)
        if not hist:
            if a != {"err": "FinamNoDataError"}:
                return ("a request before the first publication must fail with a no-data error", {"event": i, "got": a})
            continue
        if t < hist[0][0] or t > hist[-1][0]:
            if a != {"err": "FinamTimeError"}:
                return ("a request outside the published range must raise a time error (no extrapolation)",
                        {"event": i, "time": t, "range": [hist[0][0], hist[-1][0]], "got": a})
            continue
        last = t
        if "ok" not in a:
            return ("a request inside the published range must be served", {"event": i, "time": t, "got": a})
        exp = [definition(kind, pos, hist, t, c) for c in range(nc)]
        if len(a["ok"]) != nc or not all(close(x / _unit(case), float(q) / _unit(case)) for x, q in zip(a["ok"], exp)):
            return (f"{kind} interpolation must equal its definition on the full publication history",
                    {"event": i, "time": t, "got": a["ok"], "expected": [str(q) for q in exp]})
        pub = [e for e in hist if e[0] == t]
        if pub and a["ok"] != [float(v) for v in pub[0][1]]:
            return ("the published value must be returned exactly at a publication time",
                    {"event": i, "time": t, "got": a["ok"], "published": pub[0][1]})
    ref = run_impl(case, no_evict=True)
    last, hist0, histn = None, None, None
    for i, ev in enumerate(case["events"]):
        if ev[0] == "push":
            hist0 = ev[1] if hist0 is None else hist0
            histn = ev[1]
            continue
        t = ev[1]
        if last is not None and t < last:
            continue
        if hist0 is not None and hist0 <= t <= histn:
            last = t
        if impl["answers"][i] != ref["answers"][i]:
            return ("discarding old buffer entries must not change a later result "
                    "(reference: the same adapter class with eviction disabled)",
                    {"event": i, "evicting": impl["answers"][i], "keeping_everything": ref["answers"][i]})
    return None


def gen_nonfinite(rng):
    """a history in which some published values are NaN (a missing-value marker) or infinite: the adapters serve what their
    definition gives in IEEE arithmetic — a NaN / an infinity in a bracketing publication shows in the interpolant"""
    c = gen_case(rng, 30)
    c.pop("mag", None)
    pushes = [ev for ev in c["events"] if ev[0] == "push"]
    for ev in rng.sample(pushes, max(1, len(pushes) // 3)):
        k = rng.randrange(len(ev[2]))
        ev[2] = [float(v) for v in ev[2]]
        ev[2][k] = rng.choice([float("nan"), float("nan"), float("inf"), float("-inf")])
    c["nonfinite"] = True
    return c


def _fdef(kind, pos, hist, t, cell):
    le = [e for e in hist if e[0] <= t]
    ge = [e for e in hist if e[0] >= t]
    lo, hi = le[-1], ge[0]
    vlo, vhi = float(lo[1][cell]), float(hi[1][cell])
    if lo[0] == hi[0]:
        return vlo
    if kind == "next":
        return vhi
    if kind == "prev":
        return vlo
    w = (t - lo[0]) / (hi[0] - lo[0])
    if kind == "linear":
        return vlo + w * (vhi - vlo)
    return vhi if F(t - lo[0], hi[0] - lo[0]) > F(*pos) else vlo


def oracle_nonfinite(case, impl):
    import math
    kind, pos, nc = case["kind"], case["pos"], ncells(case["shape"])
    hist, last = [], None
    for i, ev in enumerate(case["events"]):
        if ev[0] == "push":
            hist.append((ev[1], ev[2]))
            continue
        t, a = ev[1], impl["answers"][i]
        if (last is not None and t < last) or not hist or t < hist[0][0] or t > hist[-1][0] or not a or "ok" not in a:
            continue
        last = t
        for c in range(nc):
            want, got = _fdef(kind, pos, hist, t, c), a["ok"][c]
            same = (math.isnan(want) and math.isnan(got)) or want == got or (math.isfinite(want) and math.isfinite(got) and close(got, want))
            if not same:
                return (f"{kind} interpolation must equal its definition on the full publication history (also with NaN / infinite values published)",
                        {"event": i, "time": t, "cell": c, "got": repr(got), "expected": repr(want)})
    return None


def check_cases(cases, res):
    models = common.lean_batch([model_request(c) for c in cases])
    for c, m in zip(cases, models):
        impl = run_impl(c)
        served = sum(1 for a in impl["answers"] if a and "ok" in a)
        evictions = sum(1 for a, b in zip(impl["lens"], impl["lens"][1:]) if b < a)
        res.case(c, served >= 2 and evictions > 0)
        res.count("kind", c["kind"])
        res.count("shape", c["shape"])
        if c["kind"] == "step":
            res.count("step_pos_eighths", c["pos"][0])
        res.count("served_pulls", n=served)
        res.count("evictions", n=evictions)
        for a in impl["answers"]:
            if a and "err" in a:
                res.count("errors", a["err"])
        if not m["pre"]:
            res.count("precondition_false")
            continue
        if m["impl"] != m["spec"]:
            raise common.MachineryError("model contradicts its own theorem adapter_refines_spec")
        d = compare(c, impl, m)
        if d:
            res.diverge("link/time-interpolation", c, d, None)
        o = oracle(c, impl)
        if o:
            res.fail(c, o[0], o[1])


def corpus():
    out = []
    for kind in KINDS:
        for pos in (0, 2, 4, 8):
            if kind != "step" and pos:
                continue
            out.append({"kind": kind, "pos": [pos, 8], "shape": "scalar", "events": [
                ["push", 0, [1]], ["pull", 0], ["push", 8, [3]], ["push", 24, [-5]], ["pull", 2], ["pull", 4],
                ["pull", 8], ["pull", 12], ["push", 32, [7]], ["pull", 24], ["pull", 28], ["pull", 33], ["pull", 32]]})
    out.append({"kind": "linear", "pos": [0, 8], "shape": "g22", "events": [
        ["push", 0, [1, 2, 3, 4]], ["push", 16, [5, 4, 3, 2]], ["pull", 4], ["push", 48, [0, 0, 9, 9]], ["pull", 16], ["pull", 40]]})
    return out


def run(ctx, res):
    res.rule = ("random publication histories (strictly increasing, irregular gaps on several time scales, integer "
                "values) and non-decreasing request sequences (on publications, at k/8 positions of an interval and "
                "one microsecond beside them, across several publications, beyond/before the published range, "
                "repeated), adapter kind in {NextTime, PreviousTime, LinearTime, StepTime(k/8)}, scalar / 2-cell / "
                "2x2-cell payloads; non-trivial = at least two served requests and one eviction; distinct by "
                "canonical hash of the case")
    res.assumptions = ["publication times strictly increasing and request times non-decreasing (preconditions "
                       "stated by the property)",
                       "floating point rounding not modelled: values compared with relative tolerance 1e-9 against "
                       "exact rationals; step positions k/8 and integer microsecond times keep the branch `dt > step` exact",
                       "a gridded payload is modelled as independent scalar series per cell"]
    cases = corpus() + [gen_case(ctx.rng, ctx.n(40, 70)) for _ in range(ctx.n(500, 8000))]
    check_cases(cases, res)
    for _ in range(ctx.n(60, 800)):
        c = gen_nonfinite(ctx.rng)
        res.case(c, True)
        res.count("part", "non-finite-values")
        o = oracle_nonfinite(c, run_impl(c))
        if o:
            res.fail(c, o[0], o[1])
    # the adapter's buffer on disk (memory limit) with masked payloads whose masks live in the data: same answers as
    # without a limit (engines/spillmask.py)
    for n in range(ctx.n(40, 600)):
        c = spillmask.gen(ctx.rng, ["next", "prev", "linear", "step"])
        o, spilled = spillmask.check(c, os.path.join(ctx.scratch(), f"sm{n}"))
        res.case(c, spilled > 0)
        res.count("part", "spill-masked")
        if o:
            res.fail(c, o[0], o[1])


def search(ctx, res, divergences, broken):
    for _ in range(200):
        c = gen_nonfinite(ctx.rng)
        res.case(c, True)
        o = oracle_nonfinite(c, run_impl(c))
        if o:
            res.fail(c, o[0], o[1])
            return
    for n in range(150):
        c = spillmask.gen(ctx.rng, ["next", "prev", "linear", "step"])
        o, _sp = spillmask.check(c, os.path.join(ctx.scratch(), f"smw{n}"))
        res.case(c, True)
        if o:
            res.fail(c, o[0], o[1])
            return
    cases = [d["case"] for d in divergences if d.get("case")]
    cases += [gen_case(ctx.rng, 60) for _ in range(ctx.n(3000, 20000))]
    for c in cases:
        impl = run_impl(c)
        res.case(c, True)
        o = oracle(c, impl)
        if o:
            res.fail(c, o[0], o[1])
            return


def shrink(ctx, f):
    case = f["case"]
    if case.get("part") == "spillmask" or case.get("nonfinite"):
        return f
    evs = list(case["events"])
    changed = True
    while changed:
        changed = False
        for i in range(len(evs)):
            trial = dict(case, events=evs[:i] + evs[i + 1:])
            try:
                o = oracle(trial, run_impl(trial))
            except Exception:
                o = None
            if o:
                evs = trial["events"]
                f = {"case": trial, "required": o[0], "observed": o[1], "signature": f.get("signature")}
                changed = True
                break
    return f


def replay(ctx, rp):
    case = rp.get("input") or (rp.get("diverging_case") or {}).get("case")
    if case.get("part") == "spillmask":
        o, _sp = spillmask.check(case, os.path.join(ctx.scratch(), "smreplay"))
        return {"fails": bool(o), "oracle": o}
    if case.get("nonfinite"):
        o = oracle_nonfinite(case, run_impl(case))
        return {"fails": bool(o), "oracle": o}
    impl = run_impl(case)
    o = oracle(case, impl)
    m = common.lean_batch([model_request(case)])[0]
    return {"fails": bool(o), "oracle": o, "impl": impl, "model": m, "correspondence": compare(case, impl, m)}
