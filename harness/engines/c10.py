"""C10 — spilling data to disk is invisible and leaves no files behind.

Correspondence: event histories (publications, requests, finalisation) are run on a real buffering slot —
`Output` (1-2 end points), `NextTime`, `PreviousTime`, `LinearTime`, `StepTime`, `StackTime`, `AvgOverTime`,
`SumOverTime` inside a real `Output >> adapter >> Input` link — with `memory_limit` at every prefix position
relative to the payload size (None, negative, 0, j*size-1, j*size, j*size+1) and a private `memory_location`,
for plain and masked payloads, and through `Finam.SP.stepS` of the Lean model.  Observables: every delivered
value, the spill directory listing (file counters) after every event and after finalisation, `_total_mem`,
`len(slot.data)`.
Oracle (independent of the model): (1) the same history with no limit delivers identical data (values, mask,
units, error class); (2) every file named in the buffer lies directly below the configured location and exists,
nothing else appears there, and the working directory is untouched; (3) after finalisation the location is empty;
(4) `_total_mem` equals the bytes of the entries held in RAM.  The same oracle runs on real
`Composition(..., slot_memory_limit=, slot_memory_location=)` runs (finalisation path of schedule.py).
"""
import logging
import os

import numpy as np

from .. import common
from ..fmutil import limited, EPOCH, T, ad, close, err_class, fm, td

MODULES = ["Output", "TimeAdapters", "Integration", "Spill", "SpillLemmas"]
GEN_OBLIGATIONS = ["caching_push_based"]
KINDS = ["output", "next", "prev", "linear", "step", "stack", "avg", "sum"]
SHAPES = {"scalar": None, "g2": (3,), "g22": (3, 3)}
MASKS = {"g2": [True, False], "g22": [False, True, False, False]}


def ncells(shape):
    return {"scalar": 1, "g2": 2, "g22": 4}[shape]


def gen_case(rng, max_events=24, kind=None):
    kind = kind or rng.choice(KINDS)
    payload = rng.choice(["plain", "plain", "masked", "maskedflex", "maskedgap"])
    shape = rng.choice(["g2", "g22"]) if payload != "plain" else rng.choices(list(SHAPES), weights=[5, 3, 2])[0]
    if payload == "maskedgap":
        shape = "g22"
    if kind == "stack" and shape == "scalar":
        shape = "g2"  # StackTime rejects stacked scalar (NoGrid) payloads with or without a limit; not a spill matter
    nc = ncells(shape)
    size = 8 * nc
    j = rng.randrange(0, 6)
    limit = rng.choice([None, -1, 0, 0, j * size - 1, j * size, j * size, j * size + 1, j * size + size // 2])
    if limit is not None and limit < -1:
        limit = -1
    case = {"kind": kind, "payload": payload, "shape": shape, "limit": limit, "units": rng.choice(["m", "mm/d", ""]),
            "n_ends": rng.choice([1, 1, 2]) if kind == "output" else 1}
    if kind == "step":
        case["pos"] = [rng.randrange(0, 9), 8]
    if kind in ("avg", "sum"):
        case["step"] = None if rng.random() < 0.5 else [rng.randrange(0, 9), 8]
    if kind == "sum":
        case["per_time"] = rng.random() < 0.7
        case["init_us"] = rng.choice([0, 3_600_000_000])
    scale = rng.choice([8, 1_000_000, 3_600_000_000])
    gaps = rng.choice([[1, 2, 3], [8, 16], [4, 8, 12]])
    t0 = rng.randrange(0, 3) * scale
    pubs = [t0]
    events = [["push", t0, [rng.randrange(-9, 10) for _ in range(nc)]]]
    last = [None] * case["n_ends"]
    if rng.random() < 0.7:
        for k in range(case["n_ends"]):
            events.append(["pull", k, t0])  # the single-entry buffer right after connect
            last[k] = t0
    strict = kind in ("avg", "sum")
    for _ in range(rng.randrange(3, max_events)):
        k = rng.randrange(case["n_ends"])
        lo = last[k] if last[k] is not None else pubs[0]
        can_pull = pubs[-1] > lo if strict else True
        if rng.random() < 0.5 or not can_pull:
            t = pubs[-1] + rng.choice(gaps) * scale
            pubs.append(t)
            events.append(["push", t, [rng.randrange(-9, 10) for _ in range(nc)]])
            continue
        r = rng.random()
        if r < 0.08:
            tt = pubs[-1] + scale  # beyond the newest publication: error, nothing changes
            events.append(["pull", k, tt])
            continue
        if r < 0.45:
            cands = [p for p in pubs if (p > lo if strict else p >= lo)]
            tt = rng.choice(cands)
        else:
            step = max(scale // 4, 1)
            n = (pubs[-1] - lo) // step
            tt = lo + rng.randrange(1 if strict else 0, n + 1) * step if n >= 1 else pubs[-1]
        events.append(["pull", k, tt])
        last[k] = tt
    case["events"] = events
    return case


def gen_static_case(rng):
    """a static output with a memory limit: one publication, read by one or two inputs at any times"""
    payload = rng.choice(["plain", "masked", "maskedflex"])
    shape = rng.choice(["g2", "g22"]) if payload != "plain" else rng.choices(list(SHAPES), weights=[5, 3, 2])[0]
    nc = ncells(shape)
    size = 8 * nc
    case = {"kind": "static", "payload": payload, "shape": shape, "limit": rng.choice([None, -1, 0, 0, size - 1, size, size + 1]),
            "units": rng.choice(["m", ""]), "n_ends": rng.choice([1, 2])}
    events = [["push", None, [rng.randrange(-9, 10) for _ in range(nc)]]]
    for _ in range(rng.randint(1, 6)):
        events.append(["pull", rng.randrange(case["n_ends"]), rng.choice([0, 8, 3_600_000_000, 86_400_000_000])])
    case["events"] = events
    return case


def make_adapter(case):
    k = case["kind"]
    if k == "next":
        return ad.NextTime()
    if k == "prev":
        return ad.PreviousTime()
    if k == "linear":
        return ad.LinearTime()
    if k == "step":
        return ad.StepTime(step=case["pos"][0] / case["pos"][1])
    if k == "stack":
        return ad.StackTime()
    step = None if case.get("step") is None else case["step"][0] / case["step"][1]
    if k == "avg":
        return ad.AvgOverTime(step=step)
    return ad.SumOverTime(step=step, per_time=case["per_time"], initial_interval=td(case["init_us"]))


def payload_of(case, vals, dshape):
    arr = np.array(vals, dtype=float).reshape(dshape)
    if case["payload"] == "masked":
        # (with a fill value of its own: what `filled()` puts into the masked cells is part of the delivered data)
        return np.ma.masked_array(arr, np.array(MASKS[case["shape"]]).reshape(dshape), fill_value=-9999.0)
    if case["payload"] == "maskedgap":
        # the metadata declare a fixed mask (say land cells); every publication masks one more cell of its own
        # (a data gap that moves from publication to publication)
        m = np.array(MASKS[case["shape"]]).reshape(-1).copy()
        free = [i for i, x in enumerate(m) if not x]
        m[free[int(vals[0]) % len(free)]] = True
        return np.ma.masked_array(arr, m.reshape(dshape))
    if case["payload"] == "maskedflex":
        # flexible mask (no mask in the metadata): the mask varies from publication to publication and is
        # empty for some of them (a MaskedArray without any masked cell)
        if int(vals[0]) % 2 == 0:
            return np.ma.masked_array(arr, np.zeros(dshape, dtype=bool))
        return np.ma.masked_array(arr, np.array(MASKS[case["shape"]]).reshape(dshape))
    return arr


def canon_value(v):
    """delivered quantity -> {"ok": [[cells] per time entry], "mask": [...], "units": str}"""
    mag = v.magnitude
    if np.asarray(np.ma.getdata(mag)).dtype == object:
        return {"err": "other", "note": "non-numeric payload delivered"}
    data = np.asarray(np.ma.getdata(mag), dtype=float)
    n = data.shape[0]
    rows = [[float(x) for x in data[i].reshape(-1)] for i in range(n)]
    mask = [bool(x) for x in np.ma.getmaskarray(mag).reshape(-1)]
    out = {"ok": rows, "mask": mask, "units": str(v.units), "masked_type": bool(np.ma.isMaskedArray(mag))}
    if np.ma.isMaskedArray(mag) and any(mask):
        out["fill_value"] = float(mag.fill_value)
    return out


def run_impl(case, location, limit="case"):
    """returns answers, listings (file counters per event), totals, lens, placement problems"""
    limit = case["limit"] if limit == "case" else limit
    dims = SHAPES[case["shape"]]
    grid = fm.NoGrid() if dims is None else fm.UniformGrid(dims)
    dshape = () if dims is None else tuple(d - 1 for d in dims)
    info_kw = {}
    if case["payload"] in ("masked", "maskedgap"):
        info_kw["mask"] = np.array(MASKS[case["shape"]]).reshape(dshape)
    static = case["kind"] == "static"
    out = fm.Output(name="out", static=static, info=fm.Info(time=None if static else T(0), grid=grid, units=case["units"], **info_kw))
    inputs = [fm.Input(name=f"in{k}", info=fm.Info(time=None, grid=None, units=None)) for k in range(case["n_ends"])]
    if case["kind"] in ("output", "static"):
        slot = out
        for inp in inputs:
            out >> inp
    else:
        slot = make_adapter(case)
        out >> slot >> inputs[0]
    for inp in inputs:
        inp.ping()
    for inp in inputs:
        inp.exchange_info()
    os.makedirs(location, exist_ok=True)
    slot.memory_limit = limit
    slot.memory_location = location
    prefix = f"{id(slot)}-"
    answers, listings, totals, lens, problems = [], [], [], [], []

    def observe(finalized=False):
        names = sorted(os.listdir(location))
        counters = []
        for nme in names:
            if nme.startswith(prefix) and nme.endswith(".npy"):
                counters.append(int(nme[len(prefix):-4]))
            else:
                problems.append({"unexpected_entry_in_location": nme})
        listings.append(sorted(counters))
        ram = 0
        for _t, d in slot.data:
            if isinstance(d, str):
                if os.path.dirname(os.path.abspath(d)) != os.path.abspath(location):
                    problems.append({"file_outside_location": d})
                if not os.path.exists(d):
                    problems.append({"buffered_file_missing": d})
            else:
                ram += d.nbytes
        totals.append(int(slot._total_mem))
        if ram != slot._total_mem and not finalized:  # `_total_mem` is not maintained by finalize()
            problems.append({"total_mem": int(slot._total_mem), "bytes_in_ram": int(ram), "event": len(totals) - 1})
        lens.append(len(slot.data))

    for ev in case["events"]:
        if ev[0] == "push":
            try:
                out.push_data(payload_of(case, ev[2], dshape), None if ev[1] is None else T(ev[1]))
                answers.append(None)
            except Exception as e:  # noqa
                answers.append({"err": err_class(e), "msg": f"{type(e).__name__}: {str(e)[:120]}", "at": "push"})
        else:
            try:
                answers.append(canon_value(inputs[ev[1]].pull_data(T(ev[2]))))
            except Exception as e:  # noqa
                answers.append({"err": err_class(e), "msg": f"{type(e).__name__}: {str(e)[:120]}"})
        observe()
    try:
        out.finalize()
        if slot is not out:
            slot.finalize()
        answers.append(None)
    except Exception as e:  # noqa
        answers.append({"err": err_class(e), "msg": f"{type(e).__name__}: {str(e)[:120]}", "at": "finalize"})
    observe(finalized=True)
    return {"answers": answers, "listings": listings, "totals": totals, "lens": lens, "problems": problems}


def model_request(case):
    size = 8 * ncells(case["shape"])
    evs = []
    for e in case["events"]:
        if e[0] == "push":
            evs.append(["push", e[1], [[v, 1] for v in e[2]], size])
        else:
            evs.append(e)
    evs.append(["finalize"])
    req = {"op": "c10", "kind": case["kind"], "limit": case["limit"], "n_ends": case["n_ends"], "events": evs}
    for k in ("pos", "per_time", "init_us"):
        if k in case:
            req[k] = case[k]
    if case.get("step") is not None:
        req["step"] = case["step"]
    return req


def unmasked(case):
    if case["payload"] in ("masked", "maskedgap"):
        return [i for i, m in enumerate(MASKS[case["shape"]]) if not m]
    return list(range(ncells(case["shape"])))


def to_model_units(case, a):
    """per-time sums are delivered in reduced (source units x s); the model computes in source units x s"""
    if case["kind"] == "sum" and case.get("per_time"):
        u_res = fm.UNITS.Unit(case["units"]) * fm.UNITS.Unit("s")
        f = (1.0 * fm.UNITS.Unit(a["units"])).to(u_res).magnitude
        return [[x * f for x in row] for row in a["ok"]]
    return a["ok"]


def same_answer(case, a, m):
    if a is None or m is None:
        return a is None and m is None
    if "err" in a or "err" in m:
        return a.get("err") == m.get("err")
    rows = to_model_units(case, a)
    if len(rows) != len(m["ok"]):
        return False
    idx = unmasked(case)
    nc = ncells(case["shape"])
    if case["payload"] in ("maskedflex", "maskedgap") and len(a["mask"]) == nc * len(rows):
        # time-varying mask: compare the cells that are unmasked in the delivered answer
        return all(close(r[i], q[i][0] / q[i][1]) for k, (r, q) in enumerate(zip(rows, m["ok"])) for i in idx
                   if not a["mask"][k * nc + i])
    return all(close(r[i], q[i][0] / q[i][1]) for r, q in zip(rows, m["ok"]) for i in idx)


def compare(case, impl, model):
    n = len(case["events"]) + 1
    for i in range(n):
        if not same_answer(case, impl["answers"][i], model["answers"][i]):
            return {"event": i, "impl": impl["answers"][i], "model": model["answers"][i]}
        if impl["listings"][i] != model["files"][i]:
            return {"event": i, "impl_files": impl["listings"][i], "model_files": model["files"][i]}
        if impl["totals"][i] != model["total"][i]:
            return {"event": i, "impl_total_mem": impl["totals"][i], "model_total": model["total"][i]}
        if impl["lens"][i] != model["lens"][i]:
            return {"event": i, "impl_len": impl["lens"][i], "model_len": model["lens"][i]}
    return None


def strip(a):
    if a is None:
        return None
    return {k: v for k, v in a.items() if k not in ("msg", "note")}


def oracle(case, impl, location):
    """the property on the implementation: identical data, files only below the location, none left"""
    ref = run_impl(case, os.path.join(location, "ref"), limit=None)
    for i, (a, b) in enumerate(zip(impl["answers"], ref["answers"])):
        if strip(a) != strip(b):
            return ("with a memory limit the slot must deliver data identical to the run without a limit",
                    {"event": i, "limit": case["limit"], "with_limit": a, "without_limit": b})
    if impl["problems"]:
        return ("spill files lie directly below the configured location, exist while buffered, nothing else is "
                "created there, and `_total_mem` is the number of bytes held in RAM", impl["problems"][0])
    if impl["listings"][-1]:
        return ("after finalisation no spill file remains", {"left_behind": impl["listings"][-1]})
    if ref["listings"][-1] or any(ref["listings"]):
        return ("without a limit nothing is written", {"files": ref["listings"]})
    return None


# ---------------------------------------------------------------------------------------------
# real compositions (schedule.py hands the limit/location to outputs and adapters and finalises them)
# ---------------------------------------------------------------------------------------------
def comp_case(rng, kind=None):
    c = gen_case(rng, 4, kind)
    c.pop("events")
    c["n_ends"] = 1
    if c["shape"] == "scalar":
        c["shape"] = "g2"
    c["cons_step_h"] = rng.choice([6, 12, 24, 36])
    c["days"] = rng.choice([2, 3, 4])
    # who carries the limit: the composition (slot_memory_limit) or the slot itself (its own memory_limit, while the
    # composition's default limit is None or generous); the location always comes from the composition
    c["own_limit"] = rng.choice([None, None, "none", "generous"])
    # what a source may legally do besides one publication per step: publish twice for one time stamp (a provisional and a
    # corrected field), and publish an end-of-run state from its own `_finalize`
    c["republish"] = rng.random() < 0.2 and c["kind"] not in ("linear", "avg", "sum")   # (interpolating between two publications of one time stamp divides by zero: not this property's business)
    c["final_publish"] = rng.random() < 0.3
    return c


def run_composition(case, location, limit):
    dims = SHAPES[case["shape"]]
    grid = fm.UniformGrid(dims)
    dshape = tuple(d - 1 for d in dims)
    nc = ncells(case["shape"])
    info_kw = {}
    if case["payload"] in ("masked", "maskedgap"):
        info_kw["mask"] = np.array(MASKS[case["shape"]]).reshape(dshape)
    day = td(86_400_000_000)
    os.makedirs(location, exist_ok=True)

    def gen(t):
        k = (t - EPOCH) // day
        return payload_of(case, [float((k * (c + 2)) % 7 - 3) for c in range(nc)], dshape)

    log, seen, outside, slots = [], [], [], []
    cwd0 = set(os.listdir(os.getcwd()))

    def cb(inp, t):
        log.append(canon_value(inp["In"]))
        seen.append(sorted(os.listdir(location)) if os.path.isdir(location) else [])
        for slot in slots:  # every buffered file name must lie directly below the configured location
            for _t, d in slot.data:
                if isinstance(d, str) and os.path.dirname(os.path.abspath(d)) != os.path.abspath(location):
                    outside.append(d)
        outside.extend(sorted(set(os.listdir(os.getcwd())) - cwd0))
        return {}

    own = case.get("own_limit")
    comp_limit = limit if (own is None or limit is None) else (None if own == "none" else 1 << 30)
    slot_limit = limit if (own is not None and limit is not None) else None

    class Gen(fm.components.CallbackGenerator):
        def _initialize(self):
            super()._initialize()
            if slot_limit is not None and case["kind"] == "output":
                self.outputs["Out"].memory_limit = slot_limit   # configured individually, before the hand-over

        def _update(self):
            super()._update()
            if case.get("republish"):
                k = (self.time - EPOCH) // day
                self.outputs["Out"].push_data(payload_of(case, [float((k * (c + 2)) % 7 - 2) for c in range(nc)], dshape), self.time)

        def _finalize(self):
            if case.get("final_publish"):
                k = (self.time - EPOCH) // day + 1
                self.outputs["Out"].push_data(payload_of(case, [float((k * (c + 2)) % 7 - 3) for c in range(nc)], dshape), self.time + day)
            super()._finalize()

    src = Gen(
        {"Out": (gen, fm.Info(time=None, grid=grid, units=case["units"], **info_kw))}, start=EPOCH, step=day)
    cons = fm.components.CallbackComponent(
        inputs={"In": fm.Info(time=None, grid=None, units=None)}, outputs={}, callback=cb,
        start=EPOCH, step=td(case["cons_step_h"] * 3_600_000_000))
    comp = fm.Composition([src, cons], print_log=False, log_level=logging.CRITICAL,
                          slot_memory_limit=comp_limit, slot_memory_location=location)
    slots.append(src.outputs["Out"])
    if case["kind"] == "output":
        src.outputs["Out"] >> cons.inputs["In"]
    else:
        a = make_adapter(case)
        if slot_limit is not None:
            a.memory_limit = slot_limit
        slots.append(a)
        src.outputs["Out"] >> a >> cons.inputs["In"]
    err = None
    try:
        limited(120, comp.run, end_time=EPOCH + case["days"] * day)
    except Exception as e:  # noqa
        err = {"err": err_class(e), "msg": f"{type(e).__name__}: {str(e)[:120]}"}
    left = sorted(os.listdir(location)) if os.path.isdir(location) else []
    outside.extend(sorted(set(os.listdir(os.getcwd())) - cwd0))
    return {"log": log, "err": err, "left": left, "max_files": max([len(s) for s in seen] + [0]),
            "outside": sorted(set(outside))}


def comp_oracle(case, location):
    a = run_composition(case, os.path.join(location, "lim"), case["limit"])
    b = run_composition(case, os.path.join(location, "nolim"), None)
    if strip(a["err"]) != strip(b["err"]) or [strip(x) for x in a["log"]] != [strip(x) for x in b["log"]]:
        first = next((i for i, (x, y) in enumerate(zip(a["log"], b["log"])) if strip(x) != strip(y)), None)
        return ("a composition run with slot_memory_limit must deliver data identical to the run without a limit",
                {"limit": case["limit"], "error_with_limit": a["err"], "error_without": b["err"], "first_difference": first,
                 "with_limit": a["log"][first] if first is not None and first < len(a["log"]) else None,
                 "without_limit": b["log"][first] if first is not None and first < len(b["log"]) else None}), a
    if a["outside"]:
        return ("spill files are created only below slot_memory_location",
                {"outside_location": a["outside"][:5], "limit": case["limit"]}), a
    if a["left"] and a["err"] is None:     # (a run that ended with an error was not finalised)
        return ("after the composition has been finalised no spill file remains below slot_memory_location",
                {"left_behind": a["left"], "limit": case["limit"]}), a
    if b["left"]:
        return ("without a limit nothing is written", {"files": b["left"]}), a
    return None, a


# ---------------------------------------------------------------------------------------------
def check_cases(ctx, cases, comp_cases, res):
    cwd_before = sorted(os.listdir(os.getcwd()))
    models = common.lean_batch([model_request(c) for c in cases])
    root = ctx.scratch()
    for n, (c, m) in enumerate(zip(cases, models)):
        if n % 3 == 0:
            c["glob_loc"] = True   # the spill location contains glob characters (part of the case: replays use one too)
        loc = os.path.join(root, f"c[{n}]" if c.get("glob_loc") else f"c{n}")
        impl = run_impl(c, loc)
        spilled = max(len(x) for x in impl["listings"])
        served = sum(1 for a in impl["answers"] if a and "ok" in a)
        mixed = spilled > 0 and any(t > 0 for t in impl["totals"])
        res.case(c, spilled > 0 and served > 0)
        res.count("kind", c["kind"])
        res.count("payload", c["payload"])
        res.count("limit_position", "none" if c["limit"] is None else "negative" if c["limit"] < 0 else
                  c["limit"] // (8 * ncells(c["shape"])))
        res.count("runs_with_spill", n=1 if spilled else 0)
        res.count("runs_mixed_ram_and_disk", n=1 if mixed else 0)
        res.count("served_pulls", n=served)
        for a in impl["answers"]:
            if a and "err" in a:
                res.count("errors", a["err"])
        if m["answers"] != m["ref"]:
            raise common.MachineryError("model contradicts its own theorem spill_transparent")
        d = compare(c, impl, m)
        if d:
            res.diverge("link/spill", c, d, None)
        o = oracle(c, impl, loc)
        if o:
            res.fail(c, o[0], o[1])
    for n, c in enumerate(comp_cases):
        o, a = comp_oracle(c, os.path.join(root, f"comp{n}"))
        res.case({"composition": c}, a["max_files"] > 0)
        res.count("composition_runs", c["kind"])
        res.count("composition_runs_with_spill", n=1 if a["max_files"] else 0)
        if o:
            res.fail({"composition": c}, o[0], o[1])
    # static outputs: oracle only (the one publication is spilled, read any number of times, removed at finalize)
    for n in range(ctx.n(40, 400)):
        c = gen_static_case(ctx.rng)
        if n % 2 == 0:
            c["glob_loc"] = True
        loc = os.path.join(root, f"s[{n}]" if c.get("glob_loc") else f"s{n}")
        impl = run_impl(c, loc)
        res.case(c, max(len(x) for x in impl["listings"]) > 0)
        res.count("kind", "static")
        o = oracle(c, impl, loc)
        if o:
            res.fail(c, o[0], o[1])
    cwd_after = sorted(os.listdir(os.getcwd()))
    if cwd_after != cwd_before:
        res.fail({"whole_run": True}, "spill files are created only below the configured location",
                 {"new_entries_in_working_directory": sorted(set(cwd_after) - set(cwd_before))})


def corpus():
    out = []
    base = [["push", 0, [1, 2]], ["pull", 0, 0], ["push", 8, [3, 4]], ["push", 24, [-5, 6]], ["pull", 0, 4],
            ["pull", 0, 8], ["push", 32, [7, 0]], ["pull", 0, 24], ["pull", 0, 28], ["pull", 0, 32]]
    for kind in KINDS:
        for limit in (0, 16, 17, 40):
            for payload in ("plain", "masked", "maskedflex"):
                c = {"kind": kind, "payload": payload, "shape": "g2", "limit": limit, "units": "m", "n_ends": 1,
                     "events": base}
                if kind == "step":
                    c["pos"] = [4, 8]
                if kind in ("avg", "sum"):
                    c["step"] = None
                if kind == "sum":
                    c["per_time"], c["init_us"] = True, 0
                out.append(c)
    return out


def comp_corpus():
    out = []
    for kind in KINDS:
        for limit, payload, own in ((0, "plain", None), (0, "masked", None), (24, "plain", None), (0, "plain", "none"),
                                    (16, "maskedflex", "generous")):
            c = {"kind": kind, "payload": payload, "shape": "g2", "limit": limit, "units": "m", "n_ends": 1,
                 "cons_step_h": 12, "days": 3, "own_limit": own}
            if kind == "step":
                c["pos"] = [4, 8]
            if kind in ("avg", "sum"):
                c["step"] = None
            if kind == "sum":
                c["per_time"], c["init_us"] = True, 0
            out.append(c)
    return out


def run(ctx, res):
    res.rule = ("random event histories (publications, requests incl. the single-entry buffer right after connect, "
                "requests beyond the range) on each buffering slot kind (Output with 1-2 end points, NextTime, PreviousTime, "
                "LinearTime, StepTime(k/8), StackTime, AvgOverTime, SumOverTime), memory_limit in {None, -1, 0, j*size-1, "
                "j*size, j*size+1, j*size+size/2 : j = 0..5} with size = payload bytes, plain and masked payloads, scalar / "
                "2-cell / 2x2-cell, three source units; plus real Composition runs with slot_memory_limit/location for "
                "every slot kind; non-trivial = at least one file was written and one request served; distinct by hash")
    res.assumptions = ["numpy save/load and MaskedArray dump/pickle load round-trip exactly (trusted external behaviour)",
                       "OS-level failures (disk full, permissions) are not modelled; the file system is a finite map",
                       "request times per end point non-decreasing, publication times increasing; integration adapters "
                       "are requested over positive-length intervals after the first request",
                       "values under the mask are not compared with the model (the mask and the unmasked values are)"]
    cases = corpus() + [gen_case(ctx.rng, ctx.n(24, 40)) for _ in range(ctx.n(400, 5000))]
    comps = comp_corpus() + [comp_case(ctx.rng) for _ in range(ctx.n(80, 600))]
    check_cases(ctx, cases, comps, res)


def search(ctx, res, divergences, broken):
    root = ctx.scratch()
    cases = [d["case"] for d in divergences if d.get("case") and "events" in d["case"]]
    cases += [gen_static_case(ctx.rng) for _ in range(200)]
    cases += [gen_case(ctx.rng, 30) for _ in range(ctx.n(1500, 10000))]
    for n, c in enumerate(cases):
        loc = os.path.join(root, f"w{n}")
        impl = run_impl(c, loc)
        res.case(c, True)
        o = oracle(c, impl, loc)
        if o:
            res.fail(c, o[0], o[1])
            return


def _eval(ctx, case, tag):
    loc = os.path.join(ctx.scratch(), tag + ("[1]" if case.get("glob_loc") else ""))
    if "composition" in case:
        o, _a = comp_oracle(case["composition"], loc)
        return o
    if "events" not in case:
        return None
    return oracle(case, run_impl(case, loc), loc)


def shrink(ctx, f):
    case = f["case"]
    if "events" not in case:
        return f
    evs = list(case["events"])
    changed, n = True, 0
    while changed:
        changed = False
        for i in range(1, len(evs)):
            trial = dict(case, events=evs[:i] + evs[i + 1:])
            n += 1
            try:
                o = _eval(ctx, trial, f"shr{n}")
            except Exception:
                o = None
            if o:
                evs = trial["events"]
                f = {"case": trial, "required": o[0], "observed": o[1], "signature": f.get("signature")}
                changed = True
                break
    return f


def replay(ctx, rp):
    case = rp.get("input") or (rp.get("diverging_case") or {}).get("case")
    o = _eval(ctx, case, "replay")
    out = {"fails": bool(o), "oracle": o}
    if "events" in case and case.get("kind") != "static":   # (static outputs are judged by the oracle only)
        loc = os.path.join(ctx.scratch(), "replay2")
        impl = run_impl(case, loc)
        m = common.lean_batch([model_request(case)])[0]
        out.update({"impl": impl, "model": m, "correspondence": compare(case, impl, m)})
    return out
