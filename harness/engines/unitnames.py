"""C07 for units whose short (CF) notations coincide — `milliinch` / `minute` ("min"), `centiday` / `candela` ("cd"),
`femtotonne` / `foot` ("ft"): several links are connected one after the other in one process; each is accepted exactly when
the input's units are convertible from the delivered units, whatever was asked about other units before.  Oracle only."""
import datetime as dt

import finam as fm

T0 = dt.datetime(2000, 1, 1)
GROUPS = [["milliinch", "minute", "mm", "s"], ["centiday", "candela", "h", "d"], ["femtotonne", "foot", "g", "m"]]


def gen(rng):
    g = rng.choice(GROUPS)
    return {"part": "unitnames", "links": [[rng.choice(g), rng.choice(g)] for _ in range(rng.randint(2, 4))]}


def run(case):
    out = []
    for su, du in case["links"]:
        o = fm.Output(name="out", info=fm.Info(time=T0, grid=fm.NoGrid(), units=su))
        i = fm.Input(name="in", info=fm.Info(time=None, grid=fm.NoGrid(), units=du))
        o >> i
        try:
            i.ping()
            i.exchange_info()
            out.append({"ok": str(i.info.units)})
        except Exception as e:  # noqa
            out.append({"err": type(e).__name__})
    return out


def oracle(case, impl):
    for k, ((su, du), r) in enumerate(zip(case["links"], impl)):
        same = fm.UNITS.Unit(su).dimensionality == fm.UNITS.Unit(du).dimensionality
        if same and "ok" not in r:
            return ("an input whose units are convertible from the delivered units is served", {"link": k, "from": su, "to": du, "got": r, "links": case["links"]})
        if not same and r != {"err": "FinamMetaDataError"}:
            return ("incompatible units make the exchange fail with a metadata error (whatever was asked about other units before)",
                    {"link": k, "from": su, "to": du, "got": r, "links": case["links"]})
    return None
