"""C08 — data crossing a link keeps its values, time, units and shape.

Correspondence: publication/pull histories over one real `Output >> Input` link (grid kinds,
payload forms, unit pairs, odd-microsecond gaps) against `Finam.Link.push/pull` of the Lean model.
Oracle (independent of the model): brute-force nearest publication, conversion by the factor and
offset of dimensional analysis in exact fractions, shape `(1,) + data_shape`, consumer units,
time errors exactly outside [oldest, newest], shared-memory pushes refused.
"""
from fractions import Fraction as F

import numpy as np

from .. import common
from ..fmutil import T, close, err_class, fm

MODULES = ["Output", "OutputLemmas", "Link"]
GEN_OBLIGATIONS = ["slot_flags"]

# unit table: name -> (dimension vector [length, time, temperature], factor, offset) w.r.t. base units
UNITS = {
    "m": ([1, 0, 0], F(1), F(0)),
    "km": ([1, 0, 0], F(1000), F(0)),
    "cm": ([1, 0, 0], F(1, 100), F(0)),
    "metre": ([1, 0, 0], F(1), F(0)),
    "s": ([0, 1, 0], F(1), F(0)),
    "min": ([0, 1, 0], F(60), F(0)),
    "K": ([0, 0, 1], F(1), F(0)),
    "degC": ([0, 0, 1], F(1), F(27315, 100)),
    "": ([0, 0, 0], F(1), F(0)),
    "m/s": ([1, -1, 0], F(1), F(0)),
    "km/min": ([1, -1, 0], F(1000, 60), F(0)),
    # equivalent units that are *not equal* as pint units (different composition)
    "mm": ([1, 0, 0], F(1, 1000), F(0)),
    "L/m^2": ([1, 0, 0], F(1, 1000), F(0)),
    "Hz": ([0, -1, 0], F(1), F(0)),
    "1/s": ([0, -1, 0], F(1), F(0)),
    "1/min": ([0, -1, 0], F(1, 60), F(0)),
}


def is_conv(case, ev):
    """does publishing this payload convert (allocate a new array)?  Only a quantity in non-equivalent units does"""
    pu = ev.get("punits")
    return pu is not None and UNITS[pu][1:] != UNITS[case["out_units"]][1:]


def junit(name):
    d, f, o = UNITS[name]
    return {"dim": d, "factor": [f.numerator, f.denominator], "offset": [o.numerator, o.denominator]}


def conv(src, dst, v):
    _, f1, o1 = UNITS[src]
    _, f2, o2 = UNITS[dst]
    return (F(v) * f1 + o1 - o2) / f2


GRIDS = [
    {"kind": "nogrid", "dim": 0},
    {"kind": "nogrid", "dim": 1},
    {"kind": "grid", "dims": [4], "orderF": False},
    {"kind": "grid", "dims": [3, 4], "orderF": False},
    {"kind": "grid", "dims": [3, 4], "orderF": True},
    {"kind": "grid", "dims": [3, 2, 3], "orderF": True},
    {"kind": "grid", "dims": [2, 3, 3], "orderF": False},
    # a square grid whose consumer indexes its data [y, x] (axes_reversed): equal data shapes on both ends, so only
    # the values tell whether the data were re-laid out for the consumer
    {"kind": "grid", "dims": [3, 3], "orderF": True, "crev": True},
    {"kind": "grid", "dims": [4, 4], "orderF": False, "crev": True},
    # both ends index [y, x] but run along the axes in different directions (bottom-up producer, top-down raster
    # consumer and the like): again equal data shapes, only the values tell
    {"kind": "grid", "dims": [4, 3], "orderF": False, "lay": {"p": [True, [True, True]], "c": [True, [True, False]]}},
    {"kind": "grid", "dims": [3, 4], "orderF": True, "lay": {"p": [True, [False, True]], "c": [True, [True, True]]}},
    {"kind": "grid", "dims": [3, 3], "orderF": False, "lay": {"p": [False, [True, False]], "c": [True, [True, True]]}},
    {"kind": "grid", "dims": [4, 3], "orderF": False, "lay": {"p": [False, [True, True]], "c": [False, [False, True]]}},
]


def to_producer_layout(g, mag):
    """delivered data (time axis first) in the consumer's layout, re-indexed the way the producer indexes its data"""
    (prev, pinc), (crev, cinc) = g["lay"]["p"], g["lay"]["c"]
    n = mag.ndim - 1
    a = mag
    if crev:
        a = a.transpose([0] + list(range(n, 0, -1)))
    for i in range(n):
        if cinc[i] != pinc[i]:
            a = np.flip(a, axis=i + 1)
    if prev:
        a = a.transpose([0] + list(range(n, 0, -1)))
    return a


def mk_grid(g, consumer=False):
    if g.get("lay"):
        rev, inc = g["lay"]["c" if consumer else "p"]
        return fm.UniformGrid(tuple(g["dims"]), order="F" if g["orderF"] else "C", axes_reversed=rev, axes_increase=inc)
    if consumer and g.get("crev"):
        return fm.UniformGrid(tuple(g["dims"]), order="F" if g["orderF"] else "C", axes_reversed=True)
    if g["kind"] == "nogrid":
        return fm.NoGrid(g["dim"])
    return fm.UniformGrid(tuple(g["dims"]), order="F" if g["orderF"] else "C")


def grid_shape(g):
    if g["kind"] == "nogrid":
        return [3] * g["dim"]  # payload shape used for NoGrid(dim)
    shape = [d - 1 for d in g["dims"]]
    return shape[::-1] if g.get("lay") and g["lay"]["p"][0] else shape   # the producer's data shape


FORMS = ["shaped", "timeaxis", "flat", "list", "wrongsize", "wrongshape", "quantity", "foreign", "incompatible", "shared", "sharedview",
         "maskedarr", "qtimeaxis"]   # qtimeaxis: a quantity in the output's units that already has the time axis; maskedarr: a masked array (one cell hidden) under the output's flexible mask; spilled, it takes the pickle path


def gen_case(rng):
    g = rng.choice(GRIDS)
    ou = rng.choice(["m", "km", "degC", "K", "", "m/s", "s", "mm", "mm", "Hz", "Hz", "L/m^2", "1/s"])
    compat = [u for u in UNITS if UNITS[u][0] == UNITS[ou][0]]
    iu = rng.choice(compat) if rng.random() < 0.9 else rng.choice(list(UNITS))
    scale = rng.choice([1, 1, 1, 7, 1000, 3_600_000_000, 43_200_000_000, 86_400_000_000])  # up to half-day and day units: gaps of several days
    events, t, val = [], rng.randrange(0, 3) * scale, 1
    pubs = []
    last_req = None
    n = rng.randrange(3, 14)
    for _ in range(n):
        if not pubs or rng.random() < 0.45:
            t = t + rng.choice([1, 2, 3, 5, 7, 9, 10]) * scale if pubs else t
            form = rng.choices(FORMS, weights=[30, 10, 14, 8, 4, 4, 8, 8, 3, 4, 3, 9, 6])[0]
            if g["kind"] == "nogrid" and form == "wrongsize":
                form = "shaped"  # NoGrid fixes the rank only
            pu = None
            if form == "foreign" or (form in ("shared", "sharedview") and rng.random() < 0.5):
                # half of them an equivalent spelling of the output's units (stored without conversion)
                equiv = [u for u in compat if UNITS[u][1:] == UNITS[ou][1:]]
                pu = rng.choice(equiv) if rng.random() < 0.5 else rng.choice(compat)
            events.append({"op": "push", "t": t, "form": form, "val": val, "punits": pu})
            pubs.append(t)
            val += rng.randrange(1, 4)
        else:
            lo = last_req if last_req is not None else pubs[0]
            r = rng.random()
            if r < 0.08:
                tt = pubs[0] - rng.randrange(1, 3) * scale if last_req is None else pubs[-1] + scale
            elif r < 0.16:
                tt = pubs[-1] + rng.randrange(1, 3) * scale
            elif r < 0.45:
                c = [p for p in pubs if p >= lo]
                tt = rng.choice(c) if c else lo
            else:
                hi = max(pubs[-1], lo)
                tt = rng.randrange(lo, hi + 1)
            events.append({"op": "pull", "t": tt})
            if pubs[0] <= tt <= pubs[-1]:
                last_req = tt
    case = {"grid": g, "out_units": ou, "in_units": iu, "events": events}
    if g["kind"] == "grid" and not g.get("crev") and not g.get("lay") and rng.random() < 0.2:
        case["omask"] = True   # the producer's metadata declare a fixed mask (its first cell): every delivery hides it
        for ev in events:
            # (how a payload of the wrong size or shape is refused under a fixed mask — numpy's own mask error — is not
            # the statement's business; masked payloads keep to the cases without a fixed mask)
            if ev["op"] == "push" and ev["form"] in ("wrongsize", "wrongshape", "maskedarr"):
                ev["form"] = "shaped"
        pushes = [ev for ev in events if ev["op"] == "push"]
        if pushes and rng.random() < 0.5:
            # the metadata also declare a fill value, and a *valid* cell (the second one) of one publication holds exactly
            # that value: the mask demanded is the mask of the metadata — nothing more is hidden
            case["fill"] = [rng.choice(["_FillValue", "missing_value"]), 0.5 + rng.choice(pushes)["val"]]
    if rng.random() < 0.25:
        # the output spills to disk beyond k payloads (C10 owns transparency; here: what the link refuses / serves)
        case["mem_limit_payloads"] = rng.choice([0, 1, 1, 2])
    return case


_SCRATCH = []


def _scratch():
    import atexit, shutil, tempfile, os
    if not _SCRATCH:
        base = os.path.join(common.VERIF, ".scratch")
        os.makedirs(base, exist_ok=True)
        d = tempfile.mkdtemp(prefix="C08-", dir=base)
        _SCRATCH.append(d)
        atexit.register(lambda: shutil.rmtree(d, ignore_errors=True))
    return _SCRATCH[0]


def payload(case, ev, prev_arr):
    """build the real payload and its model description (shape, C-order data, units, shares buffer)"""
    g = case["grid"]
    shp = grid_shape(g)
    size = int(np.prod(shp)) if shp else 1
    base = np.arange(size, dtype=float) * 0.5 + ev["val"]  # exactly representable
    form = ev["form"]
    units = None
    shared = False
    if form in ("shared", "sharedview") and prev_arr is not None:
        arr = prev_arr if form == "shared" else prev_arr[...]  # same memory (numbers untouched)
        shared = True
        obj = arr
        if ev.get("punits") is not None:
            # the producer wraps its state buffer in a quantity (equivalent spelling: stored as it is; other
            # compatible units: converted, i.e. a new array)
            units = ev["punits"]
            obj = fm.UNITS.Quantity(arr, units)
    elif form in ("shaped", "shared", "sharedview"):
        obj = arr = base.reshape(shp) if shp else np.array(base[0])
        if ev.get("punits") is not None:
            units = ev["punits"]
            obj = fm.UNITS.Quantity(arr, units)
    elif form == "maskedarr":
        arr = base.reshape(shp) if shp else np.array(base[0])
        obj = arr
        if size >= 2:
            m = np.zeros(size, dtype=bool)
            m[ev["val"] % size] = True
            obj = np.ma.masked_array(arr.copy(), m.reshape(shp))
    elif form == "qtimeaxis":
        arr = base.reshape([1] + shp)
        units = case["out_units"]
        obj = fm.UNITS.Quantity(arr, units)
    elif form == "timeaxis":
        obj = arr = base.reshape([1] + shp)
    elif form == "flat":
        obj = arr = base.copy()
        if g["kind"] == "nogrid" and g["dim"] != 1:
            obj = arr = base.reshape(shp) if shp else np.array(base[0])
    elif form == "list":
        arr = base.reshape(shp) if shp else np.array(base[0])
        obj = arr.tolist()
    elif form == "wrongsize":
        obj = arr = np.arange(size + 1, dtype=float)
    elif form == "wrongshape":
        if len(shp) >= 2 and shp != shp[::-1]:
            obj = arr = base.reshape(shp[::-1])
        elif shp:
            obj = arr = base.reshape(shp + [1])
        else:
            obj = arr = base.reshape([1, 1])
    elif form == "quantity":
        arr = base.reshape(shp) if shp else np.array(base[0])
        units = case["out_units"]
        obj = fm.UNITS.Quantity(arr, units)
    elif form == "foreign":
        arr = base.reshape(shp) if shp else np.array(base[0])
        units = ev["punits"]
        obj = fm.UNITS.Quantity(arr, units)
    else:  # incompatible
        arr = base.reshape(shp) if shp else np.array(base[0])
        bad = [u for u in UNITS if UNITS[u][0] != UNITS[case["out_units"]][0]]
        units = bad[ev["val"] % len(bad)]
        obj = fm.UNITS.Quantity(arr, units)
    a = np.asarray(arr)
    return obj, arr, {"shape": list(a.shape), "data": [[int(round(x * 2)), 2] for x in a.reshape(-1)],
                      "units": junit(units) if units is not None else None}, shared


def run_impl(case):
    g = mk_grid(case["grid"])
    okw = {}
    if case.get("omask"):
        m0 = np.zeros(tuple(int(n) for n in g.data_shape), dtype=bool)
        m0.reshape(-1)[0] = True
        okw["mask"] = m0
        if case.get("fill"):
            okw[case["fill"][0]] = float(case["fill"][1])
    out = fm.Output(name="out", info=fm.Info(time=T(0), grid=g, units=case["out_units"], **okw))
    g2 = mk_grid(case["grid"], consumer=True)
    inp = fm.Input(name="in", info=fm.Info(time=T(0), grid=g2, units=case["in_units"]))
    out >> inp
    inp.ping()
    results, mevents = [], []
    try:
        inp.exchange_info()
    except Exception as e:  # incompatible metadata: nothing flows (C07's business)
        return None, None, err_class(e)
    prev_arr = None
    prev_buf = None
    prev_origin = None
    buf = 0
    if case.get("mem_limit_payloads") is not None:
        shp = grid_shape(case["grid"])
        out.memory_limit = case["mem_limit_payloads"] * 8 * int(np.prod(shp)) if shp else case["mem_limit_payloads"] * 8
        out.memory_location = _scratch()
    for ev in case["events"]:
        if ev["op"] == "push":
            prev_in_ram = bool(out.data) and not isinstance(out.data[-1][1], str)
            eff = ev
            if ev["form"] in ("shared", "sharedview") and out.data and not prev_in_ram:
                # the previous publication lives in a file: there is nothing in memory to alias; publish a fresh array
                eff = dict(ev, form="shaped")
            obj, arr, desc, shared = payload(case, eff, prev_arr)
            # which numbers the payload carries: a shared payload is the producer's previous array
            origin = prev_origin if shared else {"val": eff["val"], "form": eff["form"]}
            if shared:
                this_buf = prev_buf
            else:
                buf += 1
                this_buf = buf
            mevents.append({"op": "push", "t": ev["t"], "shape": desc["shape"], "data": desc["data"],
                            "units": desc["units"], "buf": this_buf})
            try:
                out.push_data(obj, T(ev["t"]))
                results.append({"ok": None, "prev_in_ram": prev_in_ram, "eff": eff, "origin": origin})
                prev_buf = this_buf
                prev_origin = origin
                # the producer's own array (what a later "shared" payload aliases); whether the *stored* array is that
                # one or a converted copy is the model's / the oracle's business
                prev_arr = arr if isinstance(arr, np.ndarray) and eff["form"] not in ("list", "maskedarr") else None
            except Exception as e:  # noqa
                results.append({"err": err_class(e), "msg": str(e)[:120], "prev_in_ram": prev_in_ram, "eff": eff})
        else:
            mevents.append({"op": "pull", "t": ev["t"]})
            try:
                v = inp.pull_data(T(ev["t"]))
                mag = fm.data.get_magnitude(v)
                if np.ma.isMaskedArray(mag):
                    mag = np.where(np.ma.getmaskarray(mag), np.nan, np.ma.getdata(mag))   # hidden cells carry no value
                mag = np.asarray(mag)
                if case["grid"].get("crev") and mag.ndim == 3:
                    mag = mag.transpose(0, 2, 1)   # back to the producer's [x, y] indexing for the comparison
                if case["grid"].get("lay") and mag.ndim == 3:
                    mag = to_producer_layout(case["grid"], mag)
                results.append({"ok": {"shape": list(mag.shape), "data": [None if np.isnan(x) else float(x) for x in mag.reshape(-1)],
                                       "units": str(v.units)}})
            except Exception as e:  # noqa
                results.append({"err": err_class(e), "msg": str(e)[:120]})
    try:
        out.finalize()
    except Exception:  # noqa
        pass
    return results, mevents, None


def compare(impl, model):
    for i, (a, b) in enumerate(zip(impl, model["results"])):
        if "err" in a or "err" in b:
            if a.get("err") != b.get("err"):
                return {"event": i, "impl": a, "model": b}
            continue
        if a["ok"] is None or b["ok"] is None:
            if (a["ok"] is None) != (b["ok"] is None):
                return {"event": i, "impl": a, "model": b}
            continue
        if a["ok"]["shape"] != b["ok"]["shape"]:
            return {"event": i, "impl_shape": a["ok"]["shape"], "model_shape": b["ok"]["shape"]}
        for x, q in zip(a["ok"]["data"], b["ok"]["data"]):
            if x is not None and not close(x, q[0] / q[1]):
                return {"event": i, "impl": a["ok"]["data"][:6], "model": b["ok"]["data"][:6]}
    return None


def oracle(case, impl):
    """the property on the implementation's behaviour"""
    g = case["grid"]
    shp = grid_shape(g)
    pubs = []  # (t, C-order values in out units as Fractions in *grid index order*)
    last_ok_arr_shared = False
    oldest_needed = None
    dim_ok = UNITS[case["out_units"]][0] == UNITS[case["in_units"]][0]
    for ev, r in zip(case["events"], impl):
        if ev["op"] == "push":
            ev = r.get("eff", ev)
            form = ev["form"]
            if "ok" in r:
                if form in ("wrongsize", "wrongshape", "incompatible"):
                    return ("malformed payloads (wrong size/shape, incompatible units) must be refused", {"event": ev, "got": r})
                org = r.get("origin") or {"val": ev["val"], "form": ev["form"]}
                pubs.append((ev["t"], dict(ev, val=org["val"], layout=org["form"])))
            else:
                if form in ("shaped", "timeaxis", "flat", "list", "quantity", "foreign", "maskedarr", "qtimeaxis") or \
                        (form in ("shared", "sharedview") and is_conv(case, ev)):
                    return ("well-formed payloads must be accepted", {"event": ev, "got": r})
                if r["err"] != "FinamDataError":
                    return ("a refused publication must raise a data error", {"event": ev, "got": r})
        else:
            t = ev["t"]
            in_range = bool(pubs) and pubs[0][0] <= t <= pubs[-1][0]
            if not pubs:
                if r.get("err") != "FinamNoDataError":
                    return ("a pull before any publication must raise a no-data error", {"event": ev, "got": r})
                continue
            if not in_range:
                if r.get("err") != "FinamTimeError":
                    return ("a request outside [oldest, newest] must raise a time error", {"event": ev, "got": r})
                continue
            if not dim_ok:
                if "ok" in r:
                    return ("incompatible units must never deliver data", {"event": ev, "got": r})
                continue
            if "err" in r:
                return ("a request between oldest and newest publication must be served", {"event": ev, "got": r})
            # nearest publication(s)
            dmin = min(abs(t - p[0]) for p in pubs)
            cands = [p for p in pubs if abs(t - p[0]) == dmin]
            got = r["ok"]
            if got["shape"] != [1] + shp:
                return ("result has a time axis of length one and the consumer grid's data shape",
                        {"event": ev, "shape": got["shape"], "expected": [1] + shp})
            if got["units"] != str(fm.UNITS.Unit(case["in_units"])):
                return ("result is in the consumer's units", {"event": ev, "units": got["units"]})
            ok_any = False
            for p in cands:
                pev = p[1]
                size = int(np.prod(shp)) if shp else 1
                base = [F(k, 2) + pev["val"] for k in range(size)]
                # value at grid multi-index i: shaped payloads are in C order; flat payloads are in grid order
                if pev["layout"] == "flat" and g["kind"] == "grid" and g["orderF"]:
                    arr = np.array(base, dtype=object).reshape(shp, order="F")
                else:
                    arr = np.array(base, dtype=object).reshape(shp) if shp else np.array(base, dtype=object)
                src_u = pev["punits"] if pev.get("punits") is not None else case["out_units"]
                exp = [conv(src_u, case["in_units"], x) for x in arr.reshape(-1)]
                hidden = [False] * len(exp)
                if pev["layout"] == "maskedarr" and len(exp) >= 2 and not case.get("omask"):
                    hidden[pev["val"] % len(exp)] = True   # (C order = the order of the producer's array)
                if case.get("omask"):
                    hidden[0] = True   # the mask of the metadata is applied to every publication (a payload's own mask is replaced? no: kept out of these cases)
                if all((a is None) == h and (h or close(a, float(b))) for a, b, h in zip(got["data"], exp, hidden)):
                    ok_any = True
            if not ok_any:
                return ("a pull returns the publication nearest to t, converted to the consumer's units",
                        {"event": ev, "got": got["data"][:6], "nearest_times": [c[0] for c in cands]})
    # shared memory
    prev_ok = None
    for ev, r in zip(case["events"], impl):
        if ev["op"] != "push":
            continue
        ev = r.get("eff", ev)
        if ev["form"] in ("shared", "sharedview") and not is_conv(case, ev) \
                and prev_ok in ("shaped", "timeaxis", "flat", "quantity", "foreign", "shared", "sharedview", "qtimeaxis") \
                and r.get("prev_in_ram", True):
            if "ok" in r:
                return ("publishing an array that shares memory with the previous publication is refused",
                        {"event": ev, "got": r})
        if "ok" in r:
            # a converted payload is stored as a new array: nothing can alias it
            prev_ok = "converted" if is_conv(case, ev) else ev["form"]
    return None


def check_cases(cases, res):
    runs = []
    for c in cases:
        impl, mev, meta_err = run_impl(c)
        runs.append((c, impl, mev, meta_err))
    reqs = [{"op": "c08", "grid": ({"kind": "nogrid", "dim": c["grid"]["dim"]} if c["grid"]["kind"] == "nogrid"
                                   else {"kind": "grid", "shape": grid_shape(c["grid"]), "orderF": c["grid"]["orderF"]}),
             "out_units": junit(c["out_units"]), "in_units": junit(c["in_units"]), "events": mev}
            for c, impl, mev, me in runs if impl is not None]
    models = iter(common.lean_batch(reqs))
    for c, impl, mev, meta_err in runs:
        if impl is None:
            res.case(c, False)
            res.count("metadata_rejected", meta_err)
            if UNITS[c["out_units"]][0] == UNITS[c["in_units"]][0]:
                res.fail(c, "compatible units must be accepted at metadata exchange", {"error": meta_err})
            continue
        m = next(models)
        served = sum(1 for r, e in zip(impl, c["events"]) if e["op"] == "pull" and "ok" in r)
        res.case(c, served > 0 and len({e["t"] for e in c["events"] if e["op"] == "push"}) > 1)
        res.count("grid", "nogrid%d" % c["grid"]["dim"] if c["grid"]["kind"] == "nogrid" else
                  "%dd-%s" % (len(c["grid"]["dims"]), "F" if c["grid"]["orderF"] else "C"))
        res.count("unit_pair", "same" if c["out_units"] == c["in_units"] else "different")
        for e, r in zip(c["events"], impl):
            if e["op"] == "push":
                res.count("payload_forms", e["form"])
            if "err" in r:
                res.count("errors", r["err"])
        d = compare(impl, m)
        if d:
            res.diverge("link/push-pull", c, d, None)
        o = oracle(c, impl)
        if o:
            res.fail(c, o[0], o[1])


def corpus():
    return [
        # odd-microsecond gap: the earlier publication is nearer to +2us (F11)
        {"grid": GRIDS[0], "out_units": "m", "in_units": "m",
         "events": [{"op": "push", "t": 0, "form": "shaped", "val": 1, "punits": None},
                    {"op": "push", "t": 5, "form": "shaped", "val": 2, "punits": None},
                    {"op": "pull", "t": 2}, {"op": "pull", "t": 3}]},
        {"grid": GRIDS[4], "out_units": "km", "in_units": "m",
         "events": [{"op": "push", "t": 0, "form": "flat", "val": 1, "punits": None},
                    {"op": "push", "t": 10, "form": "foreign", "val": 3, "punits": "cm"},
                    {"op": "pull", "t": 4}, {"op": "push", "t": 20, "form": "shared", "val": 4, "punits": None},
                    {"op": "pull", "t": 10}]},
    ]


def run(ctx, res):
    res.rule = ("random push/pull histories over one Output>>Input link: 7 grid kinds (NoGrid 0/1-d, uniform 1-3d, "
                "C and F order), 11 payload forms (shaped, with time axis, flat, list, wrong size, wrong shape, "
                "quantity, foreign units, incompatible units, same buffer, view of same buffer), unit pairs incl. "
                "offset units, gaps of odd microseconds; non-trivial = at least one served pull and two "
                "publications; distinct by canonical hash")
    res.assumptions = ["floating point rounding not modelled (model is exact rational; tolerance 1e-9)",
                       "pint's conversion factors are trusted (validated pairwise by the units engine, C17)",
                       "request times non-decreasing (single consumer)"]
    cases = corpus() + [gen_case(ctx.rng) for _ in range(ctx.n(500, 8000))]
    check_cases(cases, res)
    run_multi_part(ctx, res, ctx.n(150, 2000))


# ---------------------------------------------------------------------------------------------
# several end points on one output (oracle only): requests of different end points interleave and go back in time
def gen_multi(rng):
    n = rng.randint(2, 3)
    events, pubs, last, t = [], [], [None] * n, 0
    for _ in range(rng.randint(6, 20)):
        if not pubs or rng.random() < 0.4:
            t += rng.choice([1, 2, 3, 5])
            pubs.append(t)
            events.append(["push", t])
        else:
            k = rng.randrange(n)
            lo = last[k] if last[k] is not None else pubs[0]
            cands = [x / 2 for x in range(int(2 * lo), int(2 * pubs[-1]) + 1)]
            tt = rng.choice(cands)
            events.append(["pull", k, tt])
            last[k] = tt
    return {"part": "multi", "n": n, "events": events}


def run_multi(case):
    import datetime as _dt
    hour = _dt.timedelta(hours=1)
    out = fm.Output(name="out", info=fm.Info(time=T(0), grid=fm.NoGrid(), units="m"))
    ins = [fm.Input(name=f"in{k}", info=fm.Info(time=None, grid=fm.NoGrid(), units="m")) for k in range(case["n"])]
    for i in ins:
        out >> i
    for i in ins:
        i.ping()
    for i in ins:
        i.exchange_info()
    res = []
    for ev in case["events"]:
        if ev[0] == "push":
            out.push_data(np.array(float(ev[1])), T(0) + ev[1] * hour)
            res.append(None)
        else:
            try:
                v = ins[ev[1]].pull_data(T(0) + ev[2] * hour)
                res.append({"ok": float(np.asarray(fm.data.get_magnitude(v)).reshape(-1)[0])})
            except Exception as e:  # noqa
                res.append({"err": err_class(e)})
    return res


def oracle_multi(case, impl):
    """an independent bookkeeping of what is still retained: a publication is dropped only once every end point has pulled
    and all of them are past the next one"""
    pubs, last = [], [None] * case["n"]
    for i, (ev, r) in enumerate(zip(case["events"], impl)):
        if ev[0] == "push":
            pubs.append(ev[1])
            continue
        k, t = ev[1], ev[2]
        if not pubs or t < pubs[0] or t > pubs[-1]:
            continue      # outside [oldest retained, newest]: not this clause
        if "ok" not in r:
            return ("any t between the oldest retained and the newest publication is served", {"event": i, "end_point": k, "time": t, "got": r, "retained": pubs})
        near = [p for p in pubs if abs(p - t) == min(abs(q - t) for q in pubs)]
        if r["ok"] not in [float(p) for p in near]:
            return ("a pull returns the publication nearest to t (whichever end point asked before, and for which time)",
                    {"event": i, "end_point": k, "time": t, "served_publication": r["ok"], "nearest": near, "retained": pubs})
        last[k] = t
        if all(x is not None for x in last):
            m = min(last)
            while len(pubs) > 1 and pubs[1] <= m:
                pubs.pop(0)
    return None


def run_multi_part(ctx, res, n):
    for _ in range(n):
        c = gen_multi(ctx.rng)
        res.case(c, True)
        res.count("part", "several-end-points")
        o = oracle_multi(c, run_multi(c))
        if o:
            res.fail(c, o[0], o[1])
            return True
    return False


def search(ctx, res, divergences, broken):
    if run_multi_part(ctx, res, 400):
        return
    cases = [d["case"] for d in divergences if d.get("case")] + [gen_case(ctx.rng) for _ in range(ctx.n(3000, 20000))]
    for c in cases:
        impl, mev, me = run_impl(c)
        if impl is None:
            continue
        res.case(c, True)
        o = oracle(c, impl)
        if o:
            res.fail(c, o[0], o[1])
            return


def shrink(ctx, f):
    case = f["case"]
    if case.get("part") == "multi":
        return f
    evs = list(case["events"])
    changed = True
    while changed:
        changed = False
        for i in range(len(evs)):
            trial = dict(case, events=evs[:i] + evs[i + 1:])
            try:
                impl, _m, me = run_impl(trial)
                o = oracle(trial, impl) if impl is not None else None
            except Exception:
                o = None
            if o:
                evs = trial["events"]
                f = {"case": trial, "required": o[0], "observed": o[1], "signature": f.get("signature")}
                changed = True
                break
    return f


def replay(ctx, rp):
    case = rp.get("input") or (rp.get("diverging_case") or {}).get("case")
    if case.get("part") == "multi":
        o = oracle_multi(case, run_multi(case))
        return {"fails": bool(o), "oracle": o}
    impl, mev, me = run_impl(case)
    o = oracle(case, impl) if impl is not None else None
    return {"fails": bool(o), "oracle": o, "impl": impl}
