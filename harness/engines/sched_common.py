"""Shared generator, correspondence and oracles of the scheduler family (C01-C05, C20)."""
import itertools
import json

from .. import common
from ..schedlib import CACHE, layout, model_request, run_impl

MODULES = ["Sched", "SchedLemmas"]
GEN_OBLIGATIONS = ["caching_push_based", "push_based_adapters_are_caching", "delay_fixed_flags", "delay_to_push_flags",
                   "delay_to_pull_flags", "delay_names", "nodep_names", "passthrough_flags", "slot_flags", "hierarchy"]

AD_KINDS = ["scale", "lin", "step", "next", "prev", "avg", "sum", "dfix", "dpull", "dpush"]


def gen_ad(rng, kinds):
    k = rng.choice(kinds)
    if k == "dfix":
        return ["dfix", rng.randint(0, 7)]
    if k == "dpull":
        return ["dpull", rng.randint(1, 2), rng.randint(0, 2)]
    return [k]


def gen_dag(rng, kinds=None, max_comps=5, pull_comps=True, offsets=True, max_chain=3, statics=True):
    """random DAG of time components, optionally with pull-based components in between"""
    kinds = kinds or AD_KINDS
    n = rng.randint(2, max_comps)
    comps = []
    for i in range(n):
        r = rng.random()
        if pull_comps and 0 < i < n - 1 and r < 0.25:
            comps.append({"kind": "pull", "nout": rng.choice([1, 1, 2])})
        else:
            steps = [rng.choice([1, 2, 3, 4, 5, 6, 8])]
            if rng.random() < 0.3:
                steps.append(rng.choice([1, 2, 3, 5]))
            comps.append({"kind": "time", "start": (0 if (not offsets or rng.random() < 0.7) else rng.randint(1, 3)),
                          "steps": steps})
    if not any(c["kind"] == "time" for c in comps):
        comps[0] = {"kind": "time", "start": 0, "steps": [2]}
    # topological order = index order; links a -> b for a < b
    links = []
    for b in range(1, n):
        srcs = list(range(b))
        for _ in range(rng.randint(1, 2)):
            a = rng.choice(srcs)
            out = rng.randrange(comps[a].get("nout", 1)) if comps[a]["kind"] == "pull" else 0
            chain = [gen_ad(rng, kinds) for _ in range(rng.choice([0, 0, 1, 1, 2, max_chain]))]
            if comps[a]["kind"] == "pull":
                # a pull-only source must not be followed by push-based adapters; delay adapters use the
                # metadata time of a time-stepped producer
                chain = [c for c in chain if c[0] in ("scale", "dfix")]
            links.append({"src": a, "out": out, "dst": b, "ads": chain})
    # pull components need at least one input and one consumer
    for i, c in enumerate(comps):
        if c["kind"] == "pull":
            if not any(l["dst"] == i for l in links):
                links.append({"src": 0 if comps[0]["kind"] == "time" else i, "out": 0, "dst": i, "ads": []})
    links = [l for l in links if l["src"] != l["dst"]]
    if statics and rng.random() < 0.15:
        comps.append({"kind": "static"})
        links.append({"src": len(comps) - 1, "out": 0, "dst": rng.choice([i for i, c in enumerate(comps) if c["kind"] != "static"]), "ads": []})
    order = list(range(len(comps)))
    rng.shuffle(order)
    # static inputs must be declared static on the consumer; we keep consumers non-static, so drop statics feeding them
    comps2, links2 = comps, links
    if any(c["kind"] == "static" for c in comps):
        comps2 = [c for c in comps if c["kind"] != "static"]
        links2 = [l for l in links if l["src"] < len(comps2)]
        order = [o for o in order if o < len(comps2)]
    spec = {"comps": comps2, "links": links2, "order": order, "end": rng.randint(6, 30)}
    return normalise(spec)


def add_branching_adapter(rng, spec):
    """make one pass-through adapter fan out: a link `src >> Scale >> a` gets a sibling `... Scale >> chain >> b`
    attached to the same Scale object ("via")"""
    cands = [li for li, l in enumerate(spec["links"]) if spec["comps"][l["src"]]["kind"] == "time" and "via" not in l
             and all(a[0] in ("scale", "dfix") for a in l["ads"])]   # (DelayFixed may branch; DelayToPull may not)
    if not cands:
        return spec
    li = rng.choice(cands)
    l = spec["links"][li]
    if not l["ads"]:
        l["ads"] = [["scale"]]
    dsts = [i for i, c in enumerate(spec["comps"]) if c["kind"] == "time" and i > l["src"]]
    if not dsts:
        return spec
    own = [gen_ad(rng, ["scale", "lin", "prev", "dfix"]) for _ in range(rng.choice([0, 1, 1, 2]))]
    spec["links"].append({"src": l["src"], "out": l["out"], "dst": rng.choice(dsts), "ads": own, "via": li})
    return spec


def normalise(spec):
    """remove constructs outside every property's domain: fan-out below no-branch adapters cannot happen by
    construction (each link has its own chain)"""
    return spec


def gen_ring(rng, resolved=True, kinds=None):
    """ring of 2-5 time components (optionally with pull components on the ring, a chord and a tail);
    `resolved`: the ring carries delay adapters with sum >= sum of the largest steps"""
    n = rng.randint(2, 5)
    comps = []
    for i in range(n):
        if i > 0 and rng.random() < 0.15:
            comps.append({"kind": "pull", "nout": 1})
        else:
            steps = [rng.choice([1, 2, 3, 4, 5])]
            if rng.random() < 0.25:
                steps.append(rng.choice([1, 2, 3]))
            comps.append({"kind": "time", "start": 0, "steps": steps})
    tcs = [i for i, c in enumerate(comps) if c["kind"] == "time"]
    if len(tcs) < 2:
        for i in range(n):
            comps[i] = {"kind": "time", "start": 0, "steps": [rng.choice([1, 2, 3])]}
        tcs = list(range(n))
    links = []
    for i in range(n):
        j = (i + 1) % n
        chain = []
        if comps[i]["kind"] == "time" and rng.random() < 0.4:
            chain.append(rng.choice([["scale"], ["lin"], ["prev"], ["step"]]))
        links.append({"src": i, "out": 0, "dst": j, "ads": chain})
    total = sum(max(c["steps"]) for c in comps if c["kind"] == "time")
    mode = "none"
    if resolved:
        # put the delay on links leaving time components, split over one to three adapters
        cands = [l for l in links if comps[l["src"]]["kind"] == "time"]
        mode = rng.choice(["one", "split", "spread", "dpush", "dpull"])
        if mode in ("one", "split", "spread") and rng.random() < 0.4:
            # fixed delays may also sit *downstream* of a pull-based component on the ring
            cands = [l for l in links if comps[l["src"]]["kind"] in ("time", "pull")]
            rng.shuffle(cands)
        if mode == "dpull" and not all(c["kind"] == "time" and len(c["steps"]) == 1 for c in comps):
            mode = "one"   # (DelayToPull counts requests: a fixed step of the consumer makes its delay a fixed time)
        def effective_pos(l):
            # the consumer's request passes the adapters from the consumer side up to the first push-based
            # adapter it meets; only positions behind the last push-based adapter (source -> consumer order)
            # take effect on it
            last_cache = max([i for i, a in enumerate(l["ads"]) if a[0] in CACHE], default=-1)
            return rng.randint(last_cache + 1, len(l["ads"]))

        if mode == "dpull":
            # the link's consumer asks every `step`: the n-th previous request lies n * step back
            l = rng.choice(cands)
            step = comps[l["dst"]]["steps"][0]
            n = -(-total // step)
            l["ads"].insert(effective_pos(l), ["dpull", n + rng.choice([0, 0, 1]), rng.choice([0, 0, 1])])
        elif mode == "dpush":
            l = rng.choice(cands)
            pos = effective_pos(l)
            l["ads"].insert(pos, ["dpush"])
            if rng.random() < 0.4:
                l["ads"].insert(pos, ["scale"])   # a pass-through adapter between the output and the DelayToPush
        else:
            extra = rng.choice([0, 0, 1, 3])
            parts = [total + extra]
            if mode != "one":
                k = rng.randint(2, 3)
                cuts = sorted(rng.randint(0, total + extra) for _ in range(k - 1))
                parts = [b - a for a, b in zip([0] + cuts, cuts + [total + extra])]
            for p in parts:
                l = rng.choice(cands) if mode == "spread" else cands[0]
                l["ads"].insert(effective_pos(l), ["dfix", p])
    # chord / tail
    if n >= 3 and rng.random() < 0.3:
        comps.append({"kind": "time", "start": 0, "steps": [rng.choice([1, 2, 4])]})
        links.append({"src": rng.choice(tcs), "out": 0, "dst": len(comps) - 1, "ads": []})
    # feeder: an external producer into a ring component, through a push-based or pass-through adapter, declared
    # before or after the component's ring input (the order in which `_find_dependencies` visits the inputs)
    if rng.random() < 0.35:
        comps.append({"kind": "time", "start": 0, "steps": [rng.choice([1, 2])]})
        l = {"src": len(comps) - 1, "out": 0, "dst": rng.choice(tcs), "ads": [rng.choice([["lin"], ["prev"], ["scale"], ["next"], ["lin"]])]}
        links.insert(0 if rng.random() < 0.6 else len(links), l)
    # a tail consumer hanging on the same adapter objects as a ring link (one DelayFixed / Scale instance with two targets)
    if rng.random() < 0.2:
        cands = [li for li, l in enumerate(links) if comps[l["src"]]["kind"] == "time" and comps[l["dst"]]["kind"] == "time"
                 and l["ads"] and all(a[0] in ("scale", "dfix") for a in l["ads"]) and "via" not in l]
        if cands:
            li = rng.choice(cands)
            comps.append({"kind": "time", "start": 0, "steps": [rng.choice([1, 2, 3])]})
            links.append({"src": links[li]["src"], "out": 0, "dst": len(comps) - 1, "ads": [], "via": li})
    # two tails on one pass-through adapter next to a ring link that starts with a no-branch adapter (DelayToPull / a
    # time-caching adapter) at the same output: legal — the no-branch adapter itself has one target —, linked before or
    # after the ring link
    if rng.random() < 0.25:
        cands = [li for li, l in enumerate(links) if comps[l["src"]]["kind"] == "time" and l["ads"]
                 and l["ads"][0][0] in ("dpull", "lin", "prev", "step", "next") and "via" not in l]
        if cands:
            li = rng.choice(cands)
            src = links[li]["src"]
            comps.append({"kind": "time", "start": 0, "steps": [rng.choice([1, 2, 3])]})
            comps.append({"kind": "time", "start": 0, "steps": [rng.choice([1, 2, 3])]})
            tail = {"src": src, "out": 0, "dst": len(comps) - 2, "ads": [["scale"]]}
            pos = li if rng.random() < 0.6 else len(links)
            links.insert(pos, tail)
            for l in links:
                if "via" in l and l["via"] >= pos:
                    l["via"] += 1
            links.append({"src": src, "out": 0, "dst": len(comps) - 1, "ads": [], "via": pos})
    # start offsets (a component behind a delay adapter that starts later than its feeder: the delay adapter's
    # clamp is the *feeder's* start)
    if rng.random() < 0.3:
        for c in comps:
            if c["kind"] == "time" and rng.random() < 0.5:
                c["start"] = rng.randint(1, 3)
    order = list(range(len(comps)))
    rng.shuffle(order)
    return {"comps": comps, "links": links, "order": order, "end": rng.randint(8, 24), "ring": {"resolved": resolved, "mode": mode}}


def ih(x):
    return int(round(x)) if x is not None else None


def correspond(spec, impl, model, order):
    """compare the update sequence, final times and the outcome class"""
    inv = {i: c for i, c in enumerate(order)}
    m_updates = [[inv[u], t] for u, t in model["updates"]]
    i_updates = [[u, ih(t)] for u, t in impl["updates"]]
    m_end = model["end"]
    if impl["error"] is None:
        if m_end != "done":
            return {"what": "outcome", "impl": "completed", "model": m_end}
    else:
        if impl["phase"] != "run":
            return {"what": "error outside the run phase", "impl": [impl["phase"], impl["error"], impl.get("msg")]}
        if m_end != impl["error"]:
            return {"what": "outcome", "impl": [impl["error"], impl.get("msg")], "model": m_end,
                    "impl_updates": i_updates[-5:], "model_updates": m_updates[-5:]}
    if impl["error"] is None or m_end == impl["error"]:
        # on errors the model stops before the failing update; impl logged the same prefix
        if i_updates != m_updates:
            k = next((i for i, (a, b) in enumerate(zip(i_updates, m_updates)) if a != b), min(len(i_updates), len(m_updates)))
            return {"what": "update sequence", "first_difference": k, "impl": i_updates[k:k + 4], "model": m_updates[k:k + 4]}
        fin = [ih(x) for x in impl["final"]]
        mfin = {order[i]: t for i, t in enumerate(model["final"])}
        for c, cs in enumerate(spec["comps"]):
            if cs["kind"] == "time" and fin[c] != mfin[c]:
                return {"what": "final times", "impl": fin, "model": mfin}
    return None


# ----------------------------------------------------------------------------------------------
# oracles on the implementation trace
# ----------------------------------------------------------------------------------------------
def split_updates(impl):
    """list of (comp, new_time, [requests during this update])"""
    ups = []
    cur = None
    for e in impl["events"]:
        if e[0] == "update":
            cur = [e[1], e[2], []]
            ups.append(cur)
        elif e[0] == "req" and cur is not None and e[3] is not None:
            cur[2].append((e[1], e[2]))
        elif e[0] == "got":
            cur = None
    return ups


def link_requirements(spec, li, reqs):
    """the effective request of link `li` within one update: time arriving at the first push-based adapter
    (seen from the consumer) or at the source output; None when a no-dependency adapter sits in front of it"""
    l = spec["links"][li]
    n = len(l["ads"])
    # consumer side first
    for ai in range(n - 1, -1, -1):
        a = l["ads"][ai]
        if a[0] in ("dpush", "nodep"):
            return None
        if a[0] in CACHE:
            ts = [t for tag, t in reqs if tag == ("ad", li, ai)]
            # several pulls may cross one link within one update (two outputs of a pull-based component, a
            # diamond): the update needs the source for the largest of them
            return max(ts) if ts else None
    return "source"


def oracle_c01(spec, impl):
    """every pull at the announced time inside an update succeeds and needs no extrapolation"""
    if impl["error"] in ("FinamTimeError", "FinamNoDataError") and impl["phase"] == "run":
        return ("a pull at the announced time during an update never fails with a time-range or no-data error",
                {"error": impl["error"], "msg": impl.get("msg"), "last_updates": impl["updates"][-4:]})
    return None


def oracle_outcome_ok(spec, impl):
    if impl["error"] is not None:
        return ("the run of a valid composition completes", {"error": impl["error"], "msg": impl.get("msg"), "phase": impl["phase"]})
    return None


def run_cases(specs, res, oracles, nontrivial=None, exclude=None):
    reqs, orders = [], []
    for s in specs:
        r, o = model_request(s)
        reqs.append(r)
        orders.append(o)
    models = common.lean_batch(reqs)
    out = []
    timeouts = 0
    for s, m, o in zip(specs, models, orders):
        if timeouts >= 3:
            res.count("skipped_after_repeated_timeouts")
            continue
        impl = run_impl(s)
        if impl["error"] == "timeout":
            timeouts += 1
        nt = (len(impl["updates"]) >= 3 and len({u for u, _t in impl["updates"]}) >= 2) if nontrivial is None else nontrivial(s, impl)
        res.case(slim(s), nt)
        res.count("components", len(s["comps"]))
        res.count("pull_components", sum(1 for c in s["comps"] if c["kind"] == "pull"))
        for l in s["links"]:
            res.count("chain_length", len(l["ads"]))
            for a in l["ads"]:
                res.count("adapter_kinds", a[0])
        res.count("outcome", impl["error"] or "completed")
        res.count("updates", n=len(impl["updates"]))
        failed_sig = None
        if exclude is not None:
            ex = exclude(s, impl)
            if ex:
                # the case runs into a finding recorded for another property: classified there
                res.count("excluded_other_property_finding", ex)
                out.append((s, impl, m))
                continue
        for orc in oracles:
            f = orc(s, impl)
            if f:
                failed_sig = f[2] if len(f) > 2 else None
                res.fail(slim(s), f[0], f[1], failed_sig)
                break
        d = correspond(s, impl, m, o)
        if d and failed_sig is None:
            # a case that exhibits a recorded known finding necessarily leaves the model (which describes the
            # behaviour the property demands); it is classified, not reported as a divergence
            res.diverge("sched/update-sequence", slim(s), d, None)
        out.append((s, impl, m))
    return out


def slim(spec):
    return json.loads(json.dumps(spec))


def shrink_spec(spec, still_fails):
    """greedy structural shrinking: drop links, adapters, components; reduce end"""
    cur = slim(spec)
    changed = True
    while changed:
        changed = False
        # drop adapters
        for li, l in enumerate(cur["links"]):
            for ai in range(len(l["ads"])):
                if len(l["ads"]) == 1 and any(x.get("via") == li for x in cur["links"]):
                    continue  # a branching adapter must stay
                t = slim(cur)
                del t["links"][li]["ads"][ai]
                if ok_spec(t) and still_fails(t):
                    cur, changed = t, True
                    break
            if changed:
                break
        if changed:
            continue
        # drop links
        for li in range(len(cur["links"])):
            t = slim(cur)
            del t["links"][li]
            for l in t["links"]:
                if l.get("via") == li:
                    l["ads"] = cur["links"][li]["ads"] + l["ads"]
                    del l["via"]
                elif l.get("via", -1) > li:
                    l["via"] -= 1
            if ok_spec(t) and still_fails(t):
                cur, changed = t, True
                break
        if changed:
            continue
        # drop components without links
        used = {l["src"] for l in cur["links"]} | {l["dst"] for l in cur["links"]}
        for c in range(len(cur["comps"])):
            if c not in used and len(cur["comps"]) > 1:
                t = slim(cur)
                del t["comps"][c]
                for l in t["links"]:
                    l["src"] -= l["src"] > c
                    l["dst"] -= l["dst"] > c
                t["order"] = [o - (o > c) for o in t["order"] if o != c]
                if ok_spec(t) and still_fails(t):
                    cur, changed = t, True
                    break
        if changed:
            continue
        if cur["end"] > 4:
            t = slim(cur)
            t["end"] = cur["end"] - max(1, cur["end"] // 3)
            if still_fails(t):
                cur, changed = t, True
    return cur


def ok_spec(spec):
    n = len(spec["comps"])
    if not any(c["kind"] == "time" for c in spec["comps"]):
        return False
    for i, c in enumerate(spec["comps"]):
        if c["kind"] == "pull":
            if not any(l["dst"] == i for l in spec["links"]):
                return False
    return all(0 <= l["src"] < n and 0 <= l["dst"] < n for l in spec["links"])


def gen_mixed_delay_chain(rng):
    """SRC >> {DelayFixed, DelayToPull in either order, optionally a Scale} >> MID >> SINK with a slow sink: the
    delay adapters of one link do not commute, and only a third component further back than the source makes an
    over-advanced source visible in the update sequence"""
    d = rng.choice([2, 3, 4, 5])
    chain = [["dfix", d], ["dpull", rng.choice([1, 1, 2]), rng.choice([0, 0, 1])]]
    if rng.random() < 0.5:
        chain.reverse()
    if rng.random() < 0.3:
        chain.insert(rng.randint(0, 2), ["scale"])
    comps = [{"kind": "time", "start": 0, "steps": [rng.choice([3, 4, 5])]},
             {"kind": "time", "start": 0, "steps": [rng.choice([1, 2, 2, 3])]},
             {"kind": "time", "start": 0, "steps": [rng.choice([5, 6, 7, 10])]}]
    links = [{"src": 0, "out": 0, "dst": 1, "ads": chain},
             {"src": 1, "out": 0, "dst": 2, "ads": [["scale"]] if rng.random() < 0.3 else []}]
    order = [0, 1, 2]
    rng.shuffle(order)
    return {"comps": comps, "links": links, "order": order, "end": rng.randint(20, 40)}


def gen_pull_ring(rng):
    """a ring made of pull-based components only (2-3 of them), fed by a time-stepped generator and read by a
    time-stepped sink: nothing on the ring has a time step, so the cycle is only found when the driver walks
    through pull-based components; it cannot be resolved and must be reported"""
    k = rng.randint(2, 3)
    comps = [{"kind": "time", "start": 0, "steps": [rng.choice([1, 2, 3])]}]
    comps += [{"kind": "pull", "nout": 1} for _ in range(k)]
    comps.append({"kind": "time", "start": 0, "steps": [rng.choice([1, 2, 3])]})
    ring = list(range(1, k + 1))
    links = [{"src": 0, "out": 0, "dst": ring[0], "ads": [["scale"]] if rng.random() < 0.3 else []}]
    for a, b in zip(ring, ring[1:] + ring[:1]):
        links.append({"src": a, "out": 0, "dst": b, "ads": []})
    links.append({"src": rng.choice(ring), "out": 0, "dst": k + 1, "ads": []})
    rng.shuffle(links)
    order = list(range(len(comps)))
    rng.shuffle(order)
    return {"comps": comps, "links": links, "order": order, "end": rng.randint(4, 10),
            "ring": {"resolved": False, "mode": "pull-only"}}


def gen_ring_pull_tail(rng):
    """T >> P(pull-based) >> DelayFixed(d >= step of T) >> T, and a further time-stepped component that also reads P:
    the only cycle carries enough delay, but P has a reader outside the ring"""
    a = rng.choice([1, 2, 3])
    d = a + rng.choice([0, 1, 2])
    comps = [{"kind": "time", "start": 0, "steps": [a]}, {"kind": "pull", "nout": 1},
             {"kind": "time", "start": 0, "steps": [rng.choice([1, 2, 4, 5])]}]
    links = [{"src": 0, "out": 0, "dst": 1, "ads": []}, {"src": 1, "out": 0, "dst": 0, "ads": [["dfix", d]]},
             {"src": 1, "out": 0, "dst": 2, "ads": [["scale"]] if rng.random() < 0.3 else []}]
    order = [0, 1, 2]
    rng.shuffle(order)
    return {"comps": comps, "links": links, "order": order, "end": rng.randint(6, 14),
            "ring": {"resolved": True, "mode": "pull-tail"}}
