"""C17 on whole links: data crossing a link whose ends declare different units of one dimension is converted with the
factor and offset of dimensional analysis — for float *and integer* payloads, directly, through a pass-through adapter
and through the regridding adapters (between identical point sets, so that regridding itself is the identity)."""
import datetime as dt

import numpy as np

import finam as fm

T0 = dt.datetime(2000, 1, 1)
PAIRS = [("m", "km", 0.001, 0.0), ("km", "m", 1000.0, 0.0), ("mm", "cm", 0.1, 0.0), ("degC", "K", 1.0, 273.15),
         ("K", "degC", 1.0, -273.15), ("percent", "", 0.01, 0.0), ("mm/d", "m/d", 0.001, 0.0), ("m", "m", 1.0, 0.0)]
PTS = [[0.0, 0.0], [2.0, 0.0], [0.0, 2.0], [2.0, 2.0], [1.0, 0.7]]


def gen(rng):
    return {"part": "unitlink", "pair": rng.randrange(len(PAIRS)), "dtype": rng.choice(["float", "float", "int"]),
            "via": rng.choice(["direct", "scale", "nearest", "linear", "static"]), "values": [rng.randint(-30, 60) for _ in PTS],
            # the producer may hand over a quantity that is already in the *consumer's* units (converted to its own at the
            # push, back at the pull); the output may have to park the publication on disk
            "push_as_consumer": rng.random() < 0.3, "limit0": rng.random() < 0.3, "pulls": rng.choice([1, 2, 3])}


def run(case):
    su, du, _f, _o = PAIRS[case["pair"]]
    grid = fm.UnstructuredPoints(PTS)
    via = case["via"]
    static = via == "static"
    out = fm.Output(name="out", static=static, info=fm.Info(time=None if static else T0, grid=grid, units=su))
    inp = fm.Input(name="in", static=static, info=fm.Info(time=None, grid=fm.UnstructuredPoints(PTS), units=du))
    tmp = None
    try:
        if case.get("limit0"):
            import tempfile
            tmp = tempfile.mkdtemp(prefix="finam_verif_")
            out.memory_limit, out.memory_location = 0, tmp
        if via in ("direct", "static"):
            out >> inp
        elif via == "scale":
            out >> fm.adapters.Scale(1.0) >> inp
        elif via == "nearest":
            out >> fm.adapters.RegridNearest() >> inp
        else:
            out >> fm.adapters.RegridLinear() >> inp
        inp.ping()
        inp.exchange_info()
        data = np.array(case["values"], dtype=int if case["dtype"] == "int" else float)
        if case.get("push_as_consumer"):
            f, o = PAIRS[case["pair"]][2], PAIRS[case["pair"]][3]
            data = fm.UNITS.Quantity(np.array(case["values"], dtype=float) * f + o, du)   # the same field, stated in the consumer's units
        out.push_data(data, None if static else T0)
        v = None
        for _ in range(case.get("pulls", 1)):     # (a static input answers the later reads from its cache)
            v = inp.pull_data(T0)
        mag = np.ma.getdata(fm.data.get_magnitude(v)).reshape(-1)
        return {"ok": [float(x) for x in mag], "units": str(v.units)}
    except Exception as e:  # noqa
        return {"err": type(e).__name__, "msg": str(e)[:160]}
    finally:
        try:
            out.finalize()
        except Exception:  # noqa
            pass
        if tmp:
            import shutil
            shutil.rmtree(tmp, ignore_errors=True)


def oracle(case, impl):
    su, du, f, o = PAIRS[case["pair"]]
    if "err" in impl:
        return ("data between compatible units crosses the link", {"error": impl["err"], "msg": impl["msg"]})
    want = [x * f + o for x in case["values"]]
    if len(impl["ok"]) != len(want) or any(abs(a - b) > 1e-9 * max(1.0, abs(b)) for a, b in zip(impl["ok"], want)):
        return ("data crossing a link with foreign units is converted with the factor and offset of dimensional analysis",
                {"from": su, "to": du, "via": case["via"], "dtype": case["dtype"], "delivered": impl["ok"], "exact": want})
    if impl["units"] != str(fm.UNITS.Unit(du)):
        return ("the delivered data carries the consumer's units", {"units": impl["units"], "expected": du})
    return None
