"""C17 on whole links: data crossing a link whose ends declare different units of one dimension is converted with the
factor and offset of dimensional analysis — for float *and integer* payloads, directly, through a pass-through adapter
and through the regridding adapters (between identical point sets, so that regridding itself is the identity)."""
import datetime as dt

import numpy as np

import finam as fm

T0 = dt.datetime(2000, 1, 1)
PAIRS = [("m", "km", 0.001, 0.0), ("km", "m", 1000.0, 0.0), ("mm", "cm", 0.1, 0.0), ("degC", "K", 1.0, 273.15),
         ("K", "degC", 1.0, -273.15), ("percent", "", 0.01, 0.0), ("mm/d", "m/d", 0.001, 0.0), ("m", "m", 1.0, 0.0)]
PTS = [[0.0, 0.0], [2.0, 0.0], [0.0, 2.0], [2.0, 2.0], [1.0, 0.7]]


def gen(rng):
    return {"part": "unitlink", "pair": rng.randrange(len(PAIRS)), "dtype": rng.choice(["float", "float", "int"]),
            "via": rng.choice(["direct", "scale", "nearest", "linear"]), "values": [rng.randint(-30, 60) for _ in PTS]}


def run(case):
    su, du, _f, _o = PAIRS[case["pair"]]
    grid = fm.UnstructuredPoints(PTS)
    out = fm.Output(name="out", info=fm.Info(time=T0, grid=grid, units=su))
    inp = fm.Input(name="in", info=fm.Info(time=None, grid=fm.UnstructuredPoints(PTS), units=du))
    via = case["via"]
    try:
        if via == "direct":
            out >> inp
        elif via == "scale":
            out >> fm.adapters.Scale(1.0) >> inp
        elif via == "nearest":
            out >> fm.adapters.RegridNearest() >> inp
        else:
            out >> fm.adapters.RegridLinear() >> inp
        inp.ping()
        inp.exchange_info()
        data = np.array(case["values"], dtype=int if case["dtype"] == "int" else float)
        out.push_data(data, T0)
        v = inp.pull_data(T0)
        mag = np.ma.getdata(fm.data.get_magnitude(v)).reshape(-1)
        return {"ok": [float(x) for x in mag], "units": str(v.units)}
    except Exception as e:  # noqa
        return {"err": type(e).__name__, "msg": str(e)[:160]}


def oracle(case, impl):
    su, du, f, o = PAIRS[case["pair"]]
    if "err" in impl:
        return ("data between compatible units crosses the link", {"error": impl["err"], "msg": impl["msg"]})
    want = [x * f + o for x in case["values"]]
    if len(impl["ok"]) != len(want) or any(abs(a - b) > 1e-9 * max(1.0, abs(b)) for a, b in zip(impl["ok"], want)):
        return ("data crossing a link with foreign units is converted with the factor and offset of dimensional analysis",
                {"from": su, "to": du, "via": case["via"], "dtype": case["dtype"], "delivered": impl["ok"], "exact": want})
    if impl["units"] != str(fm.UNITS.Unit(du)):
        return ("the delivered data carries the consumer's units", {"units": impl["units"], "expected": du})
    return None
