"""C17 on whole links: data crossing a link whose ends declare different units of one dimension is converted with the
factor and offset of dimensional analysis — for float *and integer* payloads, directly, through a pass-through adapter
and through the regridding adapters (between identical point sets, so that regridding itself is the identity)."""
import datetime as dt

import numpy as np

import finam as fm

T0 = dt.datetime(2000, 1, 1)
PAIRS = [("m", "km", 0.001, 0.0), ("km", "m", 1000.0, 0.0), ("mm", "cm", 0.1, 0.0), ("degC", "K", 1.0, 273.15),
         ("K", "degC", 1.0, -273.15), ("percent", "", 0.01, 0.0), ("mm/d", "m/d", 0.001, 0.0), ("m", "m", 1.0, 0.0),
         # units that are both tiny in SI base units (an absolute tolerance on base-unit factors would call them equal)
         ("nm", "angstrom", 10.0, 0.0), ("ug/m^3", "ng/m^3", 1000.0, 0.0), ("ng", "ug", 0.001, 0.0), ("ps", "ns", 0.001, 0.0)]
PTS = [[0.0, 0.0], [2.0, 0.0], [0.0, 2.0], [2.0, 2.0], [1.0, 0.7]]


def gen(rng):
    return {"part": "unitlink", "pair": rng.randrange(len(PAIRS)), "dtype": rng.choice(["float", "float", "int"]),
            "via": rng.choice(["direct", "scale", "nearest", "linear", "static", "trigger", "layout", "relay"]), "values": [rng.randint(-30, 60) for _ in PTS],
            "order": rng.randrange(2), "days": rng.choice([2, 3, 4]),
            # the producer may hand over a quantity that is already in the *consumer's* units (converted to its own at the
            # push, back at the pull); the output may have to park the publication on disk
            "push_as_consumer": rng.random() < 0.3, "limit0": rng.random() < 0.3, "pulls": rng.choice([1, 2, 3])}


class _Relay(fm.TimeComponent):
    """pulls its input (declared in units `du`) and publishes the bare numbers on an output whose metadata are taken over from
    the input's exchanged metadata (`FromInput`): what it publishes is labelled with the units its input delivers in"""

    def __init__(self, du, grid):
        super().__init__()
        self._du, self._grid = du, grid
        self.time = T0

    def _next_time(self):
        return self.time + dt.timedelta(days=1)

    def _initialize(self):
        self.inputs.add(name="In", time=None, grid=self._grid, units=self._du)
        self.outputs.add(name="Out")
        self.create_connector(pull_data=["In"], out_info_rules={"Out": [fm.tools.FromInput("In")]})

    def _connect(self, start_time):
        push = {}
        d = self.connector.in_data.get("In")
        if d is not None and not self.connector.data_pushed["Out"]:
            push["Out"] = np.asarray(fm.data.get_magnitude(fm.data.strip_time(d, self._grid)), dtype=float)
        self.try_connect(start_time, push_data=push)

    def _validate(self):
        pass

    def _update(self):
        self.time = self.time + dt.timedelta(days=1)
        d = self.inputs["In"].pull_data(self.time)
        self.outputs["Out"].push_data(np.asarray(fm.data.get_magnitude(fm.data.strip_time(d, self._grid)), dtype=float), self.time)

    def _finalize(self):
        pass


def run_relay(case):
    """source (su) >> relay input (du) ... relay output (metadata from its input) >> sink (su): the sink receives the source's
    values, converted there and back"""
    from ..fmutil import limited
    su, du, _f, _o = PAIRS[case["pair"]]
    day = dt.timedelta(days=1)
    vals = np.array(case["values"], dtype=float)
    got = []
    try:
        grid = fm.UnstructuredPoints(PTS)
        src = fm.components.CallbackGenerator({"Out": (lambda t: vals + float((t - T0).days), fm.Info(time=None, grid=grid, units=su))}, start=T0, step=day)
        relay = _Relay(du, fm.UnstructuredPoints(PTS))
        sink = fm.components.DebugConsumer({"In": fm.Info(time=None, grid=fm.UnstructuredPoints(PTS), units=su)}, start=T0, step=day,
                                           callbacks={"In": lambda n, d, t: got.append(((t - T0).days, [float(x) for x in np.asarray(fm.data.get_magnitude(d)).reshape(-1)], str(d.units)))})
        comp = fm.Composition([src, relay, sink] if case.get("order", 0) == 0 else [sink, relay, src])
        src.outputs["Out"] >> relay.inputs["In"]
        relay.outputs["Out"] >> sink.inputs["In"]
        limited(60, comp.run, end_time=T0 + case.get("days", 3) * day)
        return {"series": got}
    except Exception as e:  # noqa
        return {"err": type(e).__name__, "msg": str(e)[:160]}


def oracle_relay(case, impl):
    su, du, f, o = PAIRS[case["pair"]]
    if "err" in impl:
        return ("data between compatible units crosses two links through a relaying component", {"error": impl["err"], "msg": impl["msg"]})
    if len(impl["series"]) < 2:
        return ("the consumer behind the relay receives the initial and the run-phase values", {"received": len(impl["series"])})
    for day, vals, units in impl["series"]:
        want = [float(x + day) for x in case["values"]]
        if len(vals) != len(want) or any(abs(a - b) > 1e-6 * max(1.0, abs(b)) for a, b in zip(vals, want)):
            return ("data crossing links with foreign units is converted with the factor and offset of dimensional analysis "
                    "(there and back again: the published values arrive unchanged)",
                    {"chain": [su, du, su], "day": day, "delivered": vals, "published": want})
    return None


def run_trigger(case):
    """source (units su) >> TimeTrigger(in_info with su, out_info with du) >> consumer (units du), a few steps: every value the
    consumer receives — the initial one and those of the run phase — is the source's value of that time, converted"""
    from ..fmutil import limited
    su, du, _f, _o = PAIRS[case["pair"]]
    day = dt.timedelta(days=1)
    vals = np.array(case["values"], dtype=float)
    got = []
    try:
        src = fm.components.CallbackGenerator(
            {"Out": (lambda t: vals + float((t - T0).days), fm.Info(time=None, grid=fm.UnstructuredPoints(PTS), units=su))}, start=T0, step=day)
        trig = fm.components.TimeTrigger(in_info=fm.Info(time=None, grid=fm.UnstructuredPoints(PTS), units=su),
                                         out_info=fm.Info(time=None, grid=fm.UnstructuredPoints(PTS), units=du), start=T0, step=day)
        sink = fm.components.DebugConsumer({"In": fm.Info(time=None, grid=fm.UnstructuredPoints(PTS), units=du)},
                                           callbacks={"In": lambda n, d, t: got.append(((t - T0).days, [float(x) for x in np.asarray(fm.data.get_magnitude(d)).reshape(-1)], str(d.units)))},
                                           start=T0, step=day)
        comp = fm.Composition([src, trig, sink] if case.get("order", 0) == 0 else [sink, trig, src])
        src.outputs["Out"] >> trig.inputs["In"]
        trig.outputs["Out"] >> sink.inputs["In"]
        limited(60, comp.run, end_time=T0 + case.get("days", 3) * day)
        return {"series": got}
    except Exception as e:  # noqa
        return {"err": type(e).__name__, "msg": str(e)[:160]}


def oracle_trigger(case, impl):
    su, du, f, o = PAIRS[case["pair"]]
    if "err" in impl:
        return ("data between compatible units crosses a link through a TimeTrigger", {"error": impl["err"], "msg": impl["msg"]})
    if len(impl["series"]) < 2:
        return ("the consumer behind a TimeTrigger receives the initial and the run-phase values", {"received": len(impl["series"])})
    for day, vals, units in impl["series"]:
        want = [(x + day) * f + o for x in case["values"]]
        if len(vals) != len(want) or any(abs(a - b) > 1e-9 * max(1.0, abs(b)) for a, b in zip(vals, want)):
            return ("data crossing a link with foreign units is converted with the factor and offset of dimensional analysis",
                    {"from": su, "to": du, "via": "trigger", "day": day, "delivered": vals, "exact": want})
        if units != str(fm.UNITS.Unit(du)):
            return ("the delivered data carries the consumer's units", {"units": units, "expected": du})
    return None


def run(case):
    if case["via"] == "trigger":
        return run_trigger(case)
    if case["via"] == "relay":
        return run_relay(case)
    su, du, _f, _o = PAIRS[case["pair"]]
    grid = fm.UnstructuredPoints(PTS)
    via = case["via"]
    static = via == "static"
    in_grid = fm.UnstructuredPoints(PTS)
    if via == "layout":
        # the two ends name one grid in different layouts (a decreasing axis / reversed axes order on the consumer's side):
        # the input re-arranges the data *and* converts it
        grid = fm.UniformGrid((3, 3))
        in_grid = fm.UniformGrid((3, 3), axes_increase=[True, False]) if case.get("order", 0) == 0 else fm.UniformGrid((3, 3), axes_reversed=True)
    out = fm.Output(name="out", static=static, info=fm.Info(time=None if static else T0, grid=grid, units=su))
    inp = fm.Input(name="in", static=static, info=fm.Info(time=None, grid=in_grid, units=du))
    tmp = None
    try:
        if case.get("limit0"):
            import tempfile
            tmp = tempfile.mkdtemp(prefix="finam_verif_")
            out.memory_limit, out.memory_location = 0, tmp
        if via in ("direct", "static", "layout"):
            out >> inp
        elif via == "scale":
            out >> fm.adapters.Scale(1.0) >> inp
        elif via == "nearest":
            out >> fm.adapters.RegridNearest() >> inp
        else:
            out >> fm.adapters.RegridLinear() >> inp
        inp.ping()
        inp.exchange_info()
        data = np.array(case["values"], dtype=int if case["dtype"] == "int" else float)
        if via == "layout":
            data = data[:4].reshape(2, 2)
        if case.get("push_as_consumer") and via != "layout":
            f, o = PAIRS[case["pair"]][2], PAIRS[case["pair"]][3]
            data = fm.UNITS.Quantity(np.array(case["values"], dtype=float) * f + o, du)   # the same field, stated in the consumer's units
        out.push_data(data, None if static else T0)
        v = None
        for _ in range(case.get("pulls", 1)):     # (a static input answers the later reads from its cache)
            v = inp.pull_data(T0)
        mag = np.ma.getdata(fm.data.get_magnitude(v)).reshape(-1)
        return {"ok": [float(x) for x in mag], "units": str(v.units)}
    except Exception as e:  # noqa
        return {"err": type(e).__name__, "msg": str(e)[:160]}
    finally:
        try:
            out.finalize()
        except Exception:  # noqa
            pass
        if tmp:
            import shutil
            shutil.rmtree(tmp, ignore_errors=True)


def oracle(case, impl):
    if case["via"] == "trigger":
        return oracle_trigger(case, impl)
    if case["via"] == "relay":
        return oracle_relay(case, impl)
    su, du, f, o = PAIRS[case["pair"]]
    if "err" in impl:
        return ("data between compatible units crosses the link", {"error": impl["err"], "msg": impl["msg"]})
    want = [x * f + o for x in case["values"]]
    if case["via"] == "layout":
        # (where each value lands is C15's business: compared as multisets)
        want, impl = sorted(want[:4]), dict(impl, ok=sorted(impl["ok"]))
    if len(impl["ok"]) != len(want) or any(abs(a - b) > 1e-9 * max(1.0, abs(b)) for a, b in zip(impl["ok"], want)):
        return ("data crossing a link with foreign units is converted with the factor and offset of dimensional analysis",
                {"from": su, "to": du, "via": case["via"], "dtype": case["dtype"], "delivered": impl["ok"], "exact": want})
    if impl["units"] != str(fm.UNITS.Unit(du)):
        return ("the delivered data carries the consumer's units", {"units": impl["units"], "expected": du})
    return None
