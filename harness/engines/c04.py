"""C04 — unresolvable dependency cycles are reported; delay-resolved cycles run.

Correspondence: rings of 2-5 components (pull-based components on the ring, chords, tails, push-based
and pass-through adapters on the links) with and without resolving delay adapters, run through the
real `Composition.run` and through `Finam.runLoop`.  Oracle: an unresolved ring ends in a
circular-coupling error (never a hang, RecursionError, time/data error or anything else); a ring
whose delay adapters sum to at least the sum of the largest steps — wherever placed and however
split — completes, with the C01/C02 oracles holding throughout."""
from . import sched_common as sc
from . import c01, c02
from .. import common
from ..schedlib import layout, model_request, run_impl

MODULES = sc.MODULES + ["Props.C02", "Props.C03Run", "Props.C05Run", "Props.C04Run", "Connect", "ConnectLemmas"]
GEN_OBLIGATIONS = sc.GEN_OBLIGATIONS
THEOREM_DEPS = ["C04Run", "C04RunP"]
MODULES = MODULES + ["Props.C04RunP"]
SIG_REENTRY = "pull-reentry-circular"


def pull_with_outside_reader(spec):
    """a pull-based component that is read by more than one component (e.g. by a member of a ring it lies on and by
    a component outside that ring)"""
    readers = {}
    for l in spec["links"]:
        if spec["comps"][l["src"]]["kind"] == "pull":
            readers.setdefault(l["src"], set()).add(l["dst"])
    return any(len(r) > 1 for r in readers.values())


def oracle(spec, impl):
    ring = spec.get("ring") or {}
    if not ring.get("resolved", False):
        if impl["error"] != "FinamCircularCouplingError":
            return ("an unresolved dependency cycle ends in a circular-coupling error",
                    {"outcome": impl["error"] or "completed", "msg": impl.get("msg"), "phase": impl["phase"]}, None)
        return None
    if impl["error"] is not None and c01.oracle(spec, impl) and c01.oracle(spec, impl)[2]:
        return None  # a recorded finding of C01 (classified there)
    if impl["error"] is not None:
        # recorded finding: the walk re-enters a pull-based component that is still on the chain for another reader
        sig = SIG_REENTRY if (impl["error"] == "FinamCircularCouplingError" and pull_with_outside_reader(spec)) else None
        return ("a cycle whose delay adapters cover the sum of the largest steps runs to completion",
                {"error": impl["error"], "msg": impl.get("msg"), "phase": impl["phase"], "mode": ring.get("mode")}, sig)
    f = c02.oracle(spec, impl)
    if f:
        return f
    f = dpush_oracle(spec, impl)
    if f:
        return f
    return None


def dpush_oracle(spec, impl):
    """"the scheduling guarantees hold throughout" on a link resolved by DelayToPush: what reaches the source output is
    min(requested time, newest publication of the source) — judged on links with nothing but pass-through adapters
    besides, whose source output has this one reader and whose source is a time-stepped component"""
    nin, nout, out_index = layout(spec)
    links = []
    for li, l in enumerate(spec["links"]):
        if (any(a[0] == "dpush" for a in l["ads"]) and all(a[0] in ("dpush", "scale") for a in l["ads"])
                and spec["comps"][l["src"]]["kind"] == "time" and spec["comps"][l["dst"]]["kind"] == "time"
                and sum(1 for m in spec["links"] if (m["src"], m["out"]) == (l["src"], l["out"])) == 1):
            links.append(l)
    if not links:
        return None
    now = {i: c["start"] for i, c in enumerate(spec["comps"]) if c["kind"] == "time"}
    for u, t_new, reqs in sc.split_updates(impl):
        for l in links:
            if l["dst"] != u:
                continue
            gi = out_index[(l["src"], l["out"])]
            rs = [tt for tag, tt in reqs if tag == ("out", gi)]
            if rs and int(round(rs[-1])) != min(int(round(t_new)), int(round(now[l["src"]]))):
                return ("a link behind DelayToPush is served the source's data for min(requested time, newest publication)",
                        {"consumer": u, "requested": t_new, "source_published_up_to": now[l["src"]], "reached_the_source_for": rs[-1]}, None)
        if u in now:
            now[u] = t_new
    return None


def gen(ctx):
    if ctx.rng.random() < 0.2:
        # acyclic graphs (with pull-based components, two-output components, diamonds): no cycle to report
        from . import c20
        s = c20.gen_pull(ctx.rng) if ctx.rng.random() < 0.6 else sc.gen_dag(ctx.rng, kinds=["scale", "lin", "prev", "dfix"])
        s["ring"] = {"resolved": True, "mode": "acyclic"}
        return s
    if ctx.rng.random() < 0.08:
        return sc.gen_pull_ring(ctx.rng)
    if ctx.rng.random() < 0.06:
        return sc.gen_ring_pull_tail(ctx.rng)
    return sc.gen_ring(ctx.rng, resolved=ctx.rng.random() < 0.6)


def corpus():
    return [
        # split delay 4+3 on a ring A(3)/B(4) (F1)
        {"comps": [{"kind": "time", "start": 0, "steps": [3]}, {"kind": "time", "start": 0, "steps": [4]}],
         "links": [{"src": 0, "out": 0, "dst": 1, "ads": [["dfix", 4], ["dfix", 3]]}, {"src": 1, "out": 0, "dst": 0, "ads": []}],
         "order": [0, 1], "end": 21, "ring": {"resolved": True, "mode": "split"}},
        # genuine cycle through a pull component (F3)
        {"comps": [{"kind": "time", "start": 0, "steps": [2]}, {"kind": "pull", "nout": 1}],
         "links": [{"src": 0, "out": 0, "dst": 1, "ads": []}, {"src": 1, "out": 0, "dst": 0, "ads": []}],
         "order": [0, 1], "end": 8, "ring": {"resolved": False, "mode": "none"}},
        {"comps": [{"kind": "time", "start": 0, "steps": [2]}, {"kind": "time", "start": 0, "steps": [3]}, {"kind": "time", "start": 0, "steps": [1]}],
         "links": [{"src": 0, "out": 0, "dst": 1, "ads": [["lin"]]}, {"src": 1, "out": 0, "dst": 2, "ads": []}, {"src": 2, "out": 0, "dst": 0, "ads": [["prev"]]}],
         "order": [2, 0, 1], "end": 8, "ring": {"resolved": False, "mode": "none"}},
    ]


def run(ctx, res):
    res.rule = ("rings of 2-5 components (15% pull-based, varying steps), optional chord/tail component, optional "
                "Scale/Linear/Previous/Step adapters on ring links; 60% resolved by DelayFixed adapters summing to "
                ">= the sum of the largest steps (one adapter, split on one link, spread over links, placed at every "
                "effective position) or by DelayToPush, 40% unresolved; shuffled listing order; non-trivial = resolved "
                "ring with >= 3 updates of >= 2 components, or an unresolved ring; distinct by canonical hash")
    res.assumptions = ["delay adapters upstream of a push-based adapter do not take effect on the consumer's request and "
                       "are not counted as resolving (generator places resolving delays at effective positions)"]
    specs = corpus() + [gen(ctx) for _ in range(ctx.n(300, 6000))]
    def nt(s, impl):
        return (not s["ring"]["resolved"]) or (len(impl["updates"]) >= 3 and len({u for u, _ in impl["updates"]}) >= 2)
    def c01_known(sp, impl):
        f = c01.oracle(sp, impl)
        return ("C01:" + f[2]) if (f and f[2] is not None) else None

    out = sc.run_cases(specs, res, [oracle], nontrivial=nt, exclude=c01_known)
    for s, impl, m in out:
        res.count("ring_resolved", s["ring"]["resolved"])
        res.count("ring_mode", s["ring"]["mode"])
    # connect-phase cycles (initial pulls / metadata rules that wait for each other, with and without components that
    # do connect next to the ring): reported as a circular coupling, never a hang; acyclic ones connect
    from . import c06 as c06e
    for _ in range(ctx.n(60, 600)):
        spec = c06e.gen_template(ctx.rng) if ctx.rng.random() < 0.7 else c06e.gen_random(ctx.rng)
        n = len(spec["comps"])
        c06e.check_spec(spec, c06e.gen_orders(ctx.rng, n, 3), res)
        res.count("connect_phase_cases")


def search(ctx, res, divergences, broken):
    specs = [d["case"] for d in divergences if d.get("case")] + [gen(ctx) for _ in range(ctx.n(1500, 20000))]
    for s in specs:
        impl = run_impl(s)
        res.case(sc.slim(s), True)
        f = oracle(s, impl)
        if f:
            res.fail(sc.slim(s), f[0], f[1], None)
            return


def shrink(ctx, f):
    return f


REENTRY_CASE = {"comps": [{"kind": "time", "start": 0, "steps": [2]}, {"kind": "pull", "nout": 1}, {"kind": "time", "start": 0, "steps": [5]}],
                "links": [{"src": 0, "out": 0, "dst": 1, "ads": []}, {"src": 1, "out": 0, "dst": 0, "ads": [["dfix", 3]]},
                          {"src": 1, "out": 0, "dst": 2, "ads": []}],
                "order": [0, 1, 2], "end": 12, "ring": {"resolved": True, "mode": "pull-tail"}}


def _known_reentry(ctx):
    o = oracle(REENTRY_CASE, run_impl(REENTRY_CASE))
    return bool(o) and o[2] == SIG_REENTRY


KNOWN_REPRO = {SIG_REENTRY: _known_reentry}


def replay(ctx, rp):
    case = rp.get("input") or (rp.get("diverging_case") or {}).get("case")
    if case and case.get("comps") and "ins" in case["comps"][0]:
        from . import c06 as c06e   # a connect-phase case
        return c06e.replay(ctx, rp)
    impl = run_impl(case)
    o = oracle(case, impl)
    req, order = model_request(case)
    m = common.lean_batch([req])[0]
    return {"fails": bool(o), "oracle": o, "updates": impl["updates"][:40], "error": impl.get("msg"),
            "model_end": m["end"], "correspondence": sc.correspond(case, impl, m, order)}
