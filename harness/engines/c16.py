"""C16 — regridding puts the right source value at each target location.

Correspondence: random pairs of grids of all five kinds (uniform, rectilinear, ESRI, unstructured
cells, unstructured points), 1-3 axes, all layouts (order, axes_reversed, axes_increase, data
location), random masks on either side, fields with distinct values or affine fields, are wired
`Output >> RegridNearest/RegridLinear >> Input` with real FINAM objects; the data received by the
consumer input is compared with `Finam.Regrid.regridNearest / regridLinear` of the Lean model, which
works on the flat level (data_points and ravelled masks/values in grid order).  Coordinates live on a
dyadic lattice, so squared distances are exact in floating point and ties are detected exactly
(any nearest source is accepted).
Oracle (independent of the Lean model and of `data_points`/`to_compressed`): locations are
enumerated by multi-index, coordinates are read from `data_axes` (structured), `points` (point data)
or the mean of the cell's nodes (cell data); brute-force nearest neighbour; identity between layouts
of the same geometry; perturbing masked source values changes nothing; masked target cells stay
masked; RegridLinear on unstructured / masked sources reproduces affine fields at locations strictly
inside the hull (scipy Delaunay with a safety margin) and masks, fills with the nearest value, or
refuses (FinamDataError when the requested mask does not cover them) locations strictly outside.
"""
import copy
import itertools
from fractions import Fraction

import numpy as np

from .. import common
from ..fmutil import EPOCH, err_class, fm

MODULES = ["Regrid", "RegridLemmas"]
GEN_OBLIGATIONS = []
T0 = EPOCH


# --------------------------------------------------------------------------------------
# grids
# --------------------------------------------------------------------------------------
def build_grid(g):
    k = g["kind"]
    if k in ("uniform", "rect") and "hist" not in g:
        import json, zlib
        if zlib.crc32(json.dumps(g, sort_keys=True, default=str).encode()) % 5 == 0:
            # every fifth structured grid has a history: built for the other data location, used (points, shape, size
            # read), copied, and the copy switched to the location the case wants
            other = "POINTS" if str(g["loc"]).upper().endswith("CELLS") else "CELLS"
            first = build_grid(dict(g, loc=other, hist=False))
            _ = (first.data_points, first.data_shape, first.data_size, first.data_axes)
            second = first.copy()
            second.data_location = g["loc"]
            return second
    if k == "uniform":
        return fm.UniformGrid(tuple(g["dims"]), spacing=tuple(g["spacing"]), origin=tuple(g["origin"]),
                              data_location=g["loc"], order=g["order"], axes_reversed=g["rev"],
                              axes_increase=list(g["inc"]))
    if k == "rect":
        return fm.RectilinearGrid([np.array(a, dtype=float) for a in g["axes"]], data_location=g["loc"],
                                  order=g["order"], axes_reversed=g["rev"])
    if k == "esri":
        return fm.EsriGrid(g["ncols"], g["nrows"], cellsize=g["cellsize"], xllcorner=g["xll"], yllcorner=g["yll"],
                           order=g["order"])
    if k == "ucells":
        base = build_grid(g["base"])
        u = base.to_unstructured()
        pts, cells, types = np.array(u.points), np.array(u.cells), np.array(u.cell_types)
        if g.get("split"):
            # mixed-element mesh: some quadrilaterals are cut into two triangles (rows padded with -1)
            tri, quad = fm.CellType.TRI.value, fm.CellType.QUAD.value
            nc, nt = [], []
            for k, (row, ty) in enumerate(zip(cells.tolist(), types.tolist())):
                if k in g["split"] and ty == quad:
                    a, b, c, dd = row[:4]
                    nc += [[a, b, c, -1], [a, c, dd, -1]]
                    nt += [tri, tri]
                else:
                    nc.append(row[:4])
                    nt.append(ty)
            cells, types = np.array(nc), np.array(nt)
        if g["loc"] == "CELLS":
            perm = np.array(g["perm"])
            cells, types = cells[perm], types[perm]
        else:
            perm = np.array(g["perm"])          # new point k = old point perm[k]
            inv = np.argsort(perm)
            pts = pts[perm]
            cells = np.where(cells >= 0, inv[cells], cells)
        return fm.UnstructuredGrid(points=pts, cells=cells, cell_types=types, data_location=g["loc"], order=g["order"])
    if k == "upoints":
        return fm.UnstructuredPoints(np.array(g["points"], dtype=float), order=g["order"])
    raise ValueError(k)


def truth_coords(grid):
    """dict multi-index -> xyz coordinate tuple, from the public geometric definition of the grid
    (not from data_points)"""
    shape = tuple(int(s) for s in grid.data_shape)
    out = {}
    if isinstance(grid, fm.data.grid_spec.StructuredGrid):
        # the node axes are what the grid was given; the centre of a cell is the midpoint of its two nodes along every axis
        # (computed here, not read from `cell_axes` / `data_axes`)
        nodes = [np.asarray(a, dtype=float) for a in grid.axes]     # xyz order, increasing
        d = len(nodes)
        axes = []
        for a in range(d):                                          # data axis a runs along xyz axis i
            i = d - 1 - a if grid.axes_reversed else a
            ax = nodes[i]
            if grid.data_location == fm.Location.CELLS and len(ax) > 1:
                ax = (ax[:-1] + ax[1:]) / 2.0
            axes.append(ax if grid.axes_increase[i] else ax[::-1])
        if [len(a) for a in axes] != list(shape):
            axes = [np.asarray(a, dtype=float) for a in grid.data_axes]   # (should not happen: as the grid reports them)
        for idx in np.ndindex(*shape):
            xyz = [0.0] * d
            for a in range(d):
                xa = d - 1 - a if grid.axes_reversed else a
                xyz[xa] = float(axes[a][idx[a]])
            out[idx] = tuple(xyz)
        return out
    pts = np.asarray(grid.points, dtype=float)
    if grid.data_location == fm.Location.POINTS:
        for k in range(shape[0]):
            out[(k,)] = tuple(float(x) for x in pts[k])
    else:
        cells = np.asarray(grid.cells)
        for k in range(shape[0]):
            nodes = [n for n in cells[k] if n >= 0]
            out[(k,)] = tuple(float(x) for x in pts[nodes].mean(axis=0))
    return out


def gen_structured(rng, d, kind=None):
    kind = kind or rng.choice(["uniform", "rect"] + (["esri"] if d == 2 else []))
    order = rng.choice(["C", "F"])
    rev = rng.random() < 0.5
    loc = rng.choice(["CELLS", "POINTS"])
    if kind == "esri":
        return {"kind": "esri", "ncols": rng.randrange(1, 4), "nrows": rng.randrange(1, 4),
                "cellsize": rng.choice([0.5, 1.0, 1.5]), "xll": rng.randrange(-2, 3) * 0.25,
                "yll": rng.randrange(-2, 3) * 0.25, "order": order}
    dims = [rng.randrange(2, 5 if d < 3 else 4) for _ in range(d)]
    if kind == "uniform":
        return {"kind": "uniform", "dims": dims, "spacing": [rng.choice([0.5, 1.0, 1.5, 2.0]) for _ in range(d)],
                "origin": [rng.randrange(-2, 3) * 0.25 for _ in range(d)], "order": order, "rev": rev,
                "inc": [rng.random() < 0.6 for _ in range(d)], "loc": loc}
    axes = []
    for n in dims:
        x = rng.randrange(-2, 3) * 0.25
        ax = [x]
        for _ in range(n - 1):
            x += rng.choice([0.5, 1.0, 1.5])
            ax.append(x)
        if rng.random() < 0.35:
            ax = ax[::-1]  # decreasing axis: axes_increase False
        axes.append(ax)
    return {"kind": "rect", "axes": axes, "order": order, "rev": rev, "loc": loc}


def gen_grid(rng, d, kinds=("uniform", "rect", "esri", "ucells", "upoints")):
    kinds = [k for k in kinds if not (k == "esri" and d != 2)]
    kind = rng.choice(kinds)
    if kind in ("uniform", "rect", "esri"):
        return gen_structured(rng, d, kind)
    if kind == "ucells":
        base = gen_structured(rng, d, rng.choice(["uniform", "rect"]))
        loc = rng.choice(["CELLS", "POINTS"])
        base["loc"] = loc
        g = build_grid(base)
        split = []
        if d == 2 and rng.random() < 0.4:
            split = sorted(k for k in range(int(g.cell_count)) if rng.random() < 0.5)
        n = int(g.cell_count + len(split) if loc == "CELLS" else g.point_count)
        perm = list(range(n))
        if rng.random() < 0.7:
            rng.shuffle(perm)
        spec = {"kind": "ucells", "base": base, "perm": perm, "loc": loc, "order": rng.choice(["C", "F"])}
        if split:
            spec["split"] = split
        return spec
    n = rng.randrange(d + 2, 13)
    pts = set()
    while len(pts) < n:
        pts.add(tuple(rng.randrange(0, 13) * 0.25 for _ in range(d)))
    pts = sorted(pts)
    rng.shuffle(pts)
    return {"kind": "upoints", "points": [list(p) for p in pts], "order": rng.choice(["C", "F"])}


def relayout(rng, g):
    """the same geometry in another layout"""
    h = copy.deepcopy(g)
    if g["kind"] in ("uniform", "rect"):
        h["order"] = rng.choice(["C", "F"])
        h["rev"] = rng.random() < 0.5
        if g["kind"] == "uniform":
            h["inc"] = [rng.random() < 0.5 for _ in g["inc"]]
        else:
            h["axes"] = [a[::-1] if rng.random() < 0.5 else a for a in g["axes"]]
    elif g["kind"] == "esri":
        h["order"] = rng.choice(["C", "F"])
    elif g["kind"] == "ucells":
        perm = list(g["perm"])
        rng.shuffle(perm)
        h["perm"] = perm
        h["order"] = rng.choice(["C", "F"])
    else:
        pts = list(g["points"])
        rng.shuffle(pts)
        h["points"] = pts
    return h


def gen_mask(rng, shape, p=0.3):
    n = int(np.prod(shape))
    m = [rng.random() < p for _ in range(n)]
    if all(m):
        m[rng.randrange(n)] = False
    return m


# --------------------------------------------------------------------------------------
# cases
# --------------------------------------------------------------------------------------
def gen_case(rng, kind=None):
    kind = kind or rng.choices(["nearest", "linear"], weights=[65, 35])[0]
    if kind == "linear":
        # avoid most degenerate (collinear / coplanar) source sets: nothing is claimed for them
        for _ in range(6):
            case = _gen_case(rng, kind)
            gs = build_grid(case["src"])
            cs = truth_coords(gs)
            smask = as_mask(case["smask"], gs.data_shape)
            pts = [cs[i] for i in cs if smask is None or not smask[i]]
            if hull_classes(pts, []) is not None:
                break
        return case
    return _gen_case(rng, kind)


def _gen_case(rng, kind):
    if kind == "nearest":
        d = rng.choice([1, 2, 2, 3])
        src = gen_grid(rng, d)
        same = rng.random() < 0.25
        dst = relayout(rng, src) if same else gen_grid(rng, d)
        gs, gd = build_grid(src), build_grid(dst)
        smask = gen_mask(rng, gs.data_shape) if (rng.random() < 0.45 and not same) else None
        r = rng.random()
        if r < 0.4:
            dreq, dmask = rng.choice(["default", "flex", "none"]), None
        elif r < 0.75:
            dreq, dmask = "explicit", gen_mask(rng, gd.data_shape)
        else:
            dreq, dmask = "consumer", gen_mask(rng, gd.data_shape)
        n = int(np.prod(gs.data_shape))
        vals = list(range(1, n + 1))
        rng.shuffle(vals)
        field = {"type": "distinct", "vals": vals} if rng.random() < 0.75 else gen_affine(rng, d)
        case = {"kind": "nearest", "src": src, "dst": dst, "smask": smask, "dreq": dreq, "dmask": dmask,
                "field": field, "same_geometry": same}
        if src["kind"] in ("uniform", "rect") and rng.random() < 0.15:
            # the adapter is told its input grid explicitly: the producer's geometry, in another layout
            case["in_grid"] = relayout(rng, src)
        if rng.random() < 0.15:
            case["flat"] = True   # the producer publishes flat data (in the memory order of its grid)
        if dst["kind"] in ("uniform", "rect") and dreq != "consumer" and rng.random() < 0.15:
            case["fan"] = True    # a second consumer on the same adapter whose (equal) grid has the other memory order
        return case
    d = rng.choice([2, 2, 3])
    mode = rng.choice(["ucells", "upoints", "masked_structured"])
    if mode == "masked_structured":
        src = gen_structured(rng, d)
        gs = build_grid(src)
        smask = gen_mask(rng, gs.data_shape, 0.2)
        if not any(smask):
            smask[rng.randrange(len(smask))] = True
    else:
        src = gen_grid(rng, d, kinds=(mode,))
        gs = build_grid(src)
        smask = gen_mask(rng, gs.data_shape, 0.15) if rng.random() < 0.3 else None
    dst = gen_grid(rng, d)
    gd = build_grid(dst)
    fill = rng.random() < 0.5
    r = rng.random()
    if r < 0.55:
        dreq, dmask = rng.choice(["default", "flex"]), None
    elif r < 0.7:
        dreq, dmask = "none", None
    else:
        dreq, dmask = "explicit", gen_mask(rng, gd.data_shape, 0.4)
    n = int(np.prod(gs.data_shape))
    if rng.random() < 0.75:
        field = gen_affine(rng, d)
    else:
        vals = list(range(1, n + 1))
        rng.shuffle(vals)
        field = {"type": "distinct", "vals": vals}
    return {"kind": "linear", "src": src, "dst": dst, "smask": smask, "dreq": dreq, "dmask": dmask,
            "field": field, "fill": fill, "same_geometry": False}


def gen_affine(rng, d):
    return {"type": "affine", "coef": [rng.randrange(-3, 4) for _ in range(d + 1)]}


def field_values(case, gs, coords_s):
    """source data array (shape data_shape) from the field description, by multi-index"""
    shape = tuple(int(s) for s in gs.data_shape)
    vals = np.zeros(shape)
    f = case["field"]
    if f["type"] == "distinct":
        for n, idx in enumerate(np.ndindex(*shape)):
            vals[idx] = float(f["vals"][n])
    else:
        c = f["coef"]
        for idx in np.ndindex(*shape):
            p = coords_s[idx]
            vals[idx] = c[0] + sum(ci * x for ci, x in zip(c[1:], p))
    return vals


def as_mask(flat, shape):
    return None if flat is None else np.array(flat, dtype=bool).reshape(tuple(int(s) for s in shape))


# --------------------------------------------------------------------------------------
# implementation runner
# --------------------------------------------------------------------------------------
def run_impl(case, gs, gd, vals, perturb=False):
    smask = as_mask(case["smask"], gs.data_shape)
    dmask = as_mask(case["dmask"], gd.data_shape)
    data = np.array(vals, dtype=float)
    if smask is not None:
        if perturb:
            data = data.copy()
            data[smask] = data[smask] * -7.0 + 1234.5
        data = np.ma.masked_array(data, smask.copy())
    dreq = case["dreq"]
    out_mask = {"default": None, "flex": fm.Mask.FLEX, "none": fm.Mask.NONE, "consumer": None}.get(dreq, dmask)
    in_mask = dmask if dreq == "consumer" else fm.Mask.FLEX
    try:
        out = fm.Output(name="out", info=fm.Info(time=T0, grid=gs, units="",
                                                  mask=(smask if smask is not None else fm.Mask.NONE)))
        inp = fm.Input(name="in", info=fm.Info(time=None, grid=gd, units=None, mask=in_mask))
        if case["kind"] == "nearest":
            kw = {"in_grid": build_grid(case["in_grid"])} if case.get("in_grid") else {}
            adapter = fm.adapters.RegridNearest(out_mask=out_mask, **kw)
        else:
            adapter = fm.adapters.RegridLinear(out_mask=out_mask, fill_with_nearest=case["fill"])
        out >> adapter >> inp
        inp2 = None
        if case.get("fan"):
            gd2 = build_grid(dict(case["dst"], order="C" if case["dst"]["order"] == "F" else "F", hist=False))
            inp2 = fm.Input(name="in2", info=fm.Info(time=None, grid=gd2, units=None, mask=in_mask))
            adapter >> inp2
        inp.ping()
        if inp2 is not None:
            inp2.ping()
        inp.exchange_info()
        if inp2 is not None:
            inp2.exchange_info()
        out.push_data(data.flatten(order=gs.order) if case.get("flat") else data, T0)
        got = inp.pull_data(T0)
        got2 = inp2.pull_data(T0) if inp2 is not None else None
    except Exception as e:  # noqa
        return {"err": err_class(e), "msg": f"{type(e).__name__}: {str(e)[:160]}"}
    mag = got.magnitude[0]
    res = {"vals": np.ma.getdata(mag).astype(float), "mask": np.ma.getmaskarray(mag).copy()}
    if got2 is not None:
        # (grids that differ in the memory order only index their data alike)
        mag2 = got2.magnitude[0]
        m1, m2 = res["mask"], np.ma.getmaskarray(mag2)
        v2 = np.ma.getdata(mag2).astype(float)
        if mag2.shape != mag.shape or not np.array_equal(m1, m2) or not np.allclose(res["vals"][~m1], v2[~m1], rtol=0, atol=0, equal_nan=True):
            # the second consumer's field is what the oracle judges (the first one's is judged in the cases without fan-out)
            res = {"vals": v2 if v2.shape == res["vals"].shape else res["vals"] * np.nan, "mask": m2 if m2.shape == m1.shape else m1,
                   "fan_differs": True}
    return res


# --------------------------------------------------------------------------------------
# hull classification (scipy Delaunay with a margin; boundary locations are left undecided)
# --------------------------------------------------------------------------------------
def hull_classes(pts, queries):
    """list of 'in' / 'out' / 'edge' per query, None if the source points are degenerate"""
    from scipy.spatial import Delaunay

    try:
        tri = Delaunay(np.asarray(pts, dtype=float))
    except Exception:  # noqa
        return None
    eps = 1e-6
    d = len(pts[0])
    res = []
    for q in queries:
        q = np.asarray(q, dtype=float)
        probes = [q]
        for signs in itertools.product((-eps, 0.0, eps), repeat=d):
            probes.append(q + np.array(signs))
        inside = tri.find_simplex(np.array(probes)) >= 0
        res.append("in" if inside.all() else "out" if not inside.any() else "edge")
    return res


# --------------------------------------------------------------------------------------
# oracle
# --------------------------------------------------------------------------------------
# centroids of triangles are thirds of lattice coordinates: squared distances are then not exact in floating
# point, and a true tie shows up as a difference of a few ulps.  Distinct squared distances on the lattice (quarter
# steps, thirds of them for triangle centroids) differ by at least 1/144, so this tolerance cannot merge them.
TIE_EPS = 1e-9


def d2(p, q):
    return sum((a - b) * (a - b) for a, b in zip(p, q))


def nearest_set(cs, sidx, q):
    best, arg = None, []
    for idx in sidx:
        dist = d2(cs[idx], q)
        if best is None or dist < best - TIE_EPS * max(1.0, best):
            # everything collected so far that is farther than the new minimum (beyond the tie tolerance) goes
            arg = [j for j in arg if d2(cs[j], q) <= dist + TIE_EPS * max(1.0, dist)] + [idx]
            best = dist
        elif dist <= best + TIE_EPS * max(1.0, best):
            arg.append(idx)
            best = min(best, dist)
    return arg


def oracle(case, gs, gd, vals, impl, cs, cd):
    smask = as_mask(case["smask"], gs.data_shape)
    dmask = as_mask(case["dmask"], gd.data_shape)
    sidx = [i for i in cs if smask is None or not smask[i]]
    if "err" in impl and case["kind"] == "nearest":
        return ("nearest regridding delivers data for every pair of grids and masks", impl, "nearest-error")
    if impl.get("fan_differs"):
        return ("every consumer of one regridding adapter receives the regridded field (their equal grids differ in the memory order only)",
                {"second_consumer_differs": True}, "fan-out")
    if case["kind"] == "nearest":
        want_mask = dmask if dmask is not None else np.zeros(tuple(int(s) for s in gd.data_shape), bool)
        if not np.array_equal(impl["mask"], want_mask):
            return ("masked target cells stay masked and no other cell is masked",
                    {"got_mask": impl["mask"].astype(int).tolist(), "wanted": want_mask.astype(int).tolist()}, "target-mask")
        for idx, q in cd.items():
            if want_mask[idx]:
                continue
            near = nearest_set(cs, sidx, q)
            ok = any(impl["vals"][idx] == vals[j] for j in near)
            if not ok:
                return ("every unmasked target location receives the value of a Euclidean-nearest unmasked source location",
                        {"target_index": list(idx), "target_coord": list(q), "got": float(impl["vals"][idx]),
                         "nearest_source": [[list(j), list(cs[j]), float(vals[j])] for j in near]}, "nearest-value")
        return None
    # ---- linear
    if smask is None and isinstance(gs, fm.data.grid_spec.StructuredGrid):
        return None  # structured path of RegridLinear: not named by the property (and not runnable with this scipy)
    pts = [cs[i] for i in sidx]
    classes = hull_classes(pts, [cd[i] for i in cd])
    if classes is None:
        return None  # degenerate source set: nothing is claimed
    cls = dict(zip(cd.keys(), classes))
    req = case["dreq"]
    shape_t = tuple(int(s) for s in gd.data_shape)
    if "err" in impl:
        if impl["err"] == "FinamDataError" and not case["fill"] and req in ("none", "explicit"):
            uncovered = [i for i in cd if cls[i] != "in" and (dmask is None or not dmask[i])]
            if uncovered:
                return None  # refusing a mask that does not cover the outside is what the property allows
        return ("linear regridding delivers (or masks / fills) every target location; only a requested mask that does "
                "not cover the outside may be refused with FinamDataError", impl, "linear-error")
    f = case["field"]
    for idx, q in cd.items():
        requested_masked = dmask is not None and bool(dmask[idx])
        got_masked = bool(impl["mask"][idx])
        if requested_masked:
            if not got_masked:
                return ("masked target cells stay masked", {"target_index": list(idx)}, "target-mask")
            continue
        if cls[idx] == "in":
            if got_masked:
                return ("a target location inside the hull of the unmasked source locations is not masked",
                        {"target_index": list(idx), "coord": list(q)}, "inside-masked")
            if f["type"] == "affine":
                want = f["coef"][0] + sum(c * x for c, x in zip(f["coef"][1:], q))
                if not abs(impl["vals"][idx] - want) <= 1e-9 * max(1.0, abs(want)):
                    return ("linear regridding reproduces affine fields exactly inside the convex hull",
                            {"target_index": list(idx), "coord": list(q), "got": float(impl["vals"][idx]), "wanted": want},
                            "affine-exact")
        elif cls[idx] == "out":
            if case["fill"]:
                near = nearest_set(cs, sidx, q)
                if got_masked or not any(impl["vals"][idx] == vals[j] for j in near):
                    return ("with fill_with_nearest a location outside the hull gets the value of a nearest unmasked source location",
                            {"target_index": list(idx), "coord": list(q), "got": None if got_masked else float(impl["vals"][idx]),
                             "nearest": [[list(j), float(vals[j])] for j in near]}, "outside-fill")
            else:
                if not got_masked:
                    return ("without fill a location outside the hull is masked",
                            {"target_index": list(idx), "coord": list(q), "got": float(impl["vals"][idx])}, "outside-unmasked")
    return None


def oracle_no_influence(case, gs, gd, vals, impl):
    if case["smask"] is None or "err" in impl:
        return None
    impl2 = run_impl(case, gs, gd, vals, perturb=True)
    if "err" in impl2:
        return ("masked source values never influence the result", {"perturbed_run": impl2}, "masked-source-influence")
    same_mask = np.array_equal(impl["mask"], impl2["mask"])
    vis = ~impl["mask"]
    a, b = impl["vals"][vis], impl2["vals"][vis]
    if not same_mask or not np.allclose(a, b, rtol=1e-12, atol=1e-12, equal_nan=True):
        bad = [list(map(int, i)) for i in np.argwhere(vis & ~np.isclose(impl["vals"], impl2["vals"], equal_nan=True))][:5]
        return ("masked source values never influence unmasked results (perturbing them changes nothing)",
                {"differs_at": bad, "same_mask": bool(same_mask)}, "masked-source-influence")
    return None


# --------------------------------------------------------------------------------------
# model
# --------------------------------------------------------------------------------------
def frac(x):
    f = Fraction(float(x))
    return [f.numerator, f.denominator]


def model_request(case, gs, gd, vals, cd):
    so, to = gs.order, gd.order
    smask = as_mask(case["smask"], gs.data_shape)
    dmask = as_mask(case["dmask"], gd.data_shape)
    sp = [[frac(x) for x in p] for p in np.asarray(gs.data_points, dtype=float)]
    tp = [[frac(x) for x in p] for p in np.asarray(gd.data_points, dtype=float)]
    n, m = len(sp), len(tp)
    req = {"op": "c16", "kind": case["kind"], "sp": sp, "tp": tp,
           "sm": [bool(b) for b in smask.ravel(order=so)] if smask is not None else [False] * n,
           "sv": [frac(v) for v in np.asarray(vals, dtype=float).ravel(order=so)]}
    flat_d = [bool(b) for b in dmask.ravel(order=to)] if dmask is not None else None
    if case["kind"] == "nearest":
        req["tm"] = flat_d if flat_d is not None else [False] * m
        return req
    req["fill"] = bool(case["fill"])
    req["req"] = "none" if case["dreq"] == "none" else flat_d if case["dreq"] == "explicit" else "flex"
    return req


def linear_classes(case, gs, gd, cs, cd):
    """hull class ('in' / 'out' / 'edge') per target location in target grid order, None if degenerate"""
    smask = as_mask(case["smask"], gs.data_shape)
    sidx = [i for i in cs if smask is None or not smask[i]]
    pts = [cs[i] for i in sidx]
    shape_t = tuple(int(s) for s in gd.data_shape)
    idx_in_order = [tuple(int(x) for x in np.unravel_index(k, shape_t, order=gd.order))
                    for k in range(int(np.prod(shape_t)))]
    return hull_classes(pts, [cd[i] for i in idx_in_order])


def compare(case, gs, gd, vals, impl, model, inside=None, skip=()):
    res = model["res"]
    if "err" in res or "err" in impl:
        a = impl.get("err")
        b = res.get("err")
        if a != b:
            return {"what": "error class", "impl": impl.get("msg", "ok"), "model": b or "ok"}
        return None
    cells = res["ok"]
    to = gd.order
    gv = impl["vals"].ravel(order=to)
    gm = impl["mask"].ravel(order=to)
    smask = as_mask(case["smask"], gs.data_shape)
    so = gs.order
    sv = np.asarray(vals, dtype=float).ravel(order=so)
    sm = smask.ravel(order=so) if smask is not None else np.zeros(len(sv), bool)
    sp = np.asarray(gs.data_points, dtype=float)
    tp = np.asarray(gd.data_points, dtype=float)
    if len(cells) != len(gv):
        return {"what": "size", "impl": len(gv), "model": len(cells)}
    affine = case["field"]["type"] == "affine"
    for k, c in enumerate(cells):
        if k in skip:
            continue
        if c == "m":
            if not gm[k]:
                return {"what": "mask", "flat_index": k, "impl": "unmasked", "model": "masked"}
            continue
        if gm[k]:
            return {"what": "mask", "flat_index": k, "impl": "masked", "model": c}
        if c == "nan":
            if not np.isnan(gv[k]):
                return {"what": "value", "flat_index": k, "impl": float(gv[k]), "model": "nan"}
            continue
        mv = c[0] / c[1]
        interpolated = case["kind"] == "linear" and inside is not None and inside[k]
        if interpolated:
            if affine and not abs(gv[k] - mv) <= 1e-9 * max(1.0, abs(mv)):
                return {"what": "interpolated value", "flat_index": k, "impl": float(gv[k]), "model": mv}
            continue
        if gv[k] == mv:
            continue
        # a tie: any source at the minimal distance is acceptable
        dmin = model["dmin"][k]
        dmin = dmin[0] / dmin[1]
        ok = any((not sm[j]) and abs(float(((sp[j] - tp[k]) ** 2).sum()) - dmin) <= TIE_EPS * max(1.0, dmin) and sv[j] == gv[k] for j in range(len(sv)))
        if not ok:
            return {"what": "nearest value", "flat_index": k, "impl": float(gv[k]), "model": mv}
    return None


# --------------------------------------------------------------------------------------
# engine interface
# --------------------------------------------------------------------------------------
def prepare_case(case, with_model=True):
    """runs the implementation and builds the model request (or None)"""
    gs, gd = build_grid(case["src"]), build_grid(case["dst"])
    cs, cd = truth_coords(gs), truth_coords(gd)
    vals = field_values(case, gs, cs)
    impl = run_impl(case, gs, gd, vals)
    tags = {"degenerate": False, "edge": 0}
    req, inside, edge = None, None, set()
    if with_model:
        req = model_request(case, gs, gd, vals, cd)
        if case["kind"] == "linear":
            classes = linear_classes(case, gs, gd, cs, cd)
            if classes is None:
                tags["degenerate"] = True
                req = None
            else:
                # the model takes the interpolator as a parameter: hull membership is reported to it;
                # locations on the hull boundary are undecidable in floating point and are not compared
                inside = [cl == "in" for cl in classes]
                edge = {k for k, cl in enumerate(classes) if cl == "edge"}
                tags["edge"] = len(edge)
                req["inside"] = inside
                f = case["field"]
                req["aff"] = [frac(c) for c in f["coef"]] if f["type"] == "affine" else [[0, 1]]
    return {"case": case, "gs": gs, "gd": gd, "cs": cs, "cd": cd, "vals": vals, "impl": impl, "tags": tags,
            "req": req, "inside": inside, "edge": edge}


def finish_case(p, model):
    case, impl = p["case"], p["impl"]
    div = None
    if model is not None:
        div = compare(case, p["gs"], p["gd"], p["vals"], impl, model, p["inside"], p["edge"])
        if div and p["edge"] and div["what"] == "error class":
            div = None
    fail = oracle(case, p["gs"], p["gd"], p["vals"], impl, p["cs"], p["cd"])
    if fail is None:
        fail = oracle_no_influence(case, p["gs"], p["gd"], p["vals"], impl)
    return impl, div, fail, p["tags"]


def evaluate(case, with_model=True):
    """returns (impl, divergence or None, oracle failure or None, tags)"""
    p = prepare_case(case, with_model)
    model = common.lean_batch([p["req"]])[0] if p["req"] is not None else None
    return finish_case(p, model)


def corpus():
    return [
        {"kind": "nearest", "same_geometry": True, "smask": None, "dreq": "default", "dmask": None,
         "src": {"kind": "uniform", "dims": [3, 4], "spacing": [1.0, 1.5], "origin": [0.0, 0.25], "order": "F",
                 "rev": False, "inc": [True, True], "loc": "POINTS"},
         "dst": {"kind": "uniform", "dims": [3, 4], "spacing": [1.0, 1.5], "origin": [0.0, 0.25], "order": "C",
                 "rev": True, "inc": [False, True], "loc": "POINTS"},
         "field": {"type": "distinct", "vals": list(range(1, 13))}},
        {"kind": "nearest", "same_geometry": False, "smask": [False, True, False, False, True, False], "dreq": "explicit",
         "dmask": [True, False, False, False],
         "src": {"kind": "esri", "ncols": 3, "nrows": 2, "cellsize": 1.0, "xll": 0.0, "yll": 0.0, "order": "C"},
         "dst": {"kind": "upoints", "points": [[0.5, 0.5], [1.5, 0.5], [2.5, 1.5], [1.5, 1.5]], "order": "C"},
         "field": {"type": "distinct", "vals": [3, 1, 4, 6, 5, 2]}},
        {"kind": "linear", "same_geometry": False, "fill": True, "smask": None, "dreq": "flex", "dmask": None,
         "src": {"kind": "upoints", "points": [[0.0, 0.0], [2.0, 0.0], [0.0, 2.0], [2.0, 2.0], [1.0, 1.0]], "order": "C"},
         "dst": {"kind": "uniform", "dims": [3, 3], "spacing": [1.5, 1.5], "origin": [-0.5, -0.5], "order": "F",
                 "rev": False, "inc": [True, True], "loc": "POINTS"},
         "field": {"type": "affine", "coef": [1, 2, -1]}},
    ]


def nontrivial(case):
    return bool(case["smask"] is not None or case["dmask"] is not None or case["src"] != case["dst"])


def record(case, res, impl, tags):
    res.count("kind", case["kind"])
    res.count("source_grid", case["src"]["kind"])
    res.count("target_grid", case["dst"]["kind"])
    res.count("field", case["field"]["type"])
    res.count("source_mask", case["smask"] is not None)
    res.count("target_mask_request", case["dreq"])
    if case.get("same_geometry"):
        res.count("same_geometry_other_layout")
    if case["kind"] == "linear":
        res.count("fill", case["fill"])
        if tags.get("degenerate"):
            res.count("linear_degenerate_source")
        res.count("hull_edge_locations", n=tags.get("edge", 0))
    if "err" in impl:
        res.count("errors", impl["err"])


def check_cases(cases, res, with_model=True):
    preps = [prepare_case(c, with_model) for c in cases]
    idx = [i for i, p in enumerate(preps) if p["req"] is not None]
    answers = common.lean_batch([preps[i]["req"] for i in idx]) if idx else []
    models = dict(zip(idx, answers))
    for i, p in enumerate(preps):
        _report(p["case"], res, *finish_case(p, models.get(i)))


def check_case(case, res, with_model=True):
    _report(case, res, *evaluate(case, with_model))


def _report(case, res, impl, div, fail, tags):
    res.case(case, nontrivial(case))
    record(case, res, impl, tags)
    if div:
        res.diverge("regrid/" + div["what"], case, div, None)
    if fail:
        res.fail(case, fail[0], fail[1], signature=None)
        res.count("oracle_failure_kind", fail[2])


def run(ctx, res):
    res.rule = ("pairs of grids drawn from {uniform, rectilinear (incl. decreasing axes), ESRI, unstructured cells "
                "(to_unstructured of a structured grid with permuted cells/points), unstructured points}, 1-3 axes, every "
                "order / axes_reversed / axes_increase / data_location, coordinates on a 1/4 lattice; 25% of the nearest cases "
                "are the same geometry in another layout; source mask (45%), target mask via the adapter, via the consumer, "
                "FLEX, NONE or default; fields with distinct integer values or affine fields with integer coefficients; "
                "RegridLinear only on unstructured or masked sources in 2-3 axes, with and without fill_with_nearest; "
                "non-trivial = a mask on either side or different source/target grids; distinct by canonical hash")
    res.assumptions = [
        "floating point rounding not modelled; lattice coordinates keep squared distances exact, ties accept any nearest source",
        "scipy KDTree.query is an arg-min of the Euclidean distance, LinearNDInterpolator is affine-exact inside the hull and NaN outside (hypotheses of the theorems); locations on the hull boundary (within 1e-6) are not judged",
        "RegridLinear: only the unstructured / masked-source path (the structured path does not run with the installed scipy); 2-3 axes (scipy's LinearNDInterpolator needs at least 2-D)",
        "the data mask equals the mask announced in the source info (C18)",
    ]
    check_cases(corpus(), res)
    total = ctx.n(2400, 24000)
    while total > 0:
        n = min(total, 300)
        check_cases([gen_case(ctx.rng) for _ in range(n)], res)
        total -= n
    run_pairs(ctx, res, ctx.n(40, 600))


def run_pairs(ctx, res, n):
    """several regridding adapters in one process on projected coordinates (engines/regridpair.py)"""
    from . import regridpair
    for _ in range(n):
        c = regridpair.gen(ctx.rng)
        res.case(c, True)
        res.count("part", "regrid-pair/" + c["kind"])
        o = regridpair.oracle(c, regridpair.run(c))
        if o:
            res.fail(c, o[0], o[1])
            return True
    return False


def search(ctx, res, divergences, broken):
    if run_pairs(ctx, res, 60):
        return
    cases = [d["case"] for d in divergences if d.get("case")]
    cases += [gen_case(ctx.rng) for _ in range(ctx.n(1500, 10000))]
    for c in cases:
        check_case(c, res, with_model=False)
        if res.failures:
            return


def _fails(case):
    try:
        _impl, _div, fail, _tags = evaluate(case, with_model=False)
        return fail
    except Exception:  # noqa
        return None


def shrink(ctx, f):
    if f["case"].get("part") == "regridpair":
        return f
    case = copy.deepcopy(f["case"])
    best = _fails(case)
    if not best:
        return f
    changed = True
    while changed:
        changed = False
        trials = []
        structured_src = case["src"]["kind"] in ("uniform", "rect", "esri")
        if case["smask"] is not None and not (case["kind"] == "linear" and structured_src):
            t = copy.deepcopy(case)
            t["smask"] = None
            trials.append(t)
        if case["dmask"] is not None:
            t = copy.deepcopy(case)
            t["dmask"], t["dreq"] = None, "flex"
            trials.append(t)
        for side in ("src", "dst"):
            g = case[side]
            if g["kind"] == "uniform":
                for a in range(len(g["dims"])):
                    if g["dims"][a] > 2 and case["smask" if side == "src" else "dmask"] is None \
                            and case["field"]["type"] == "affine":
                        t = copy.deepcopy(case)
                        t[side]["dims"][a] -= 1
                        trials.append(t)
        for t in trials:
            o = _fails(t)
            if o and o[2] == best[2]:  # same clause of the property
                case, best, changed = t, o, True
                break
    return {"case": case, "required": best[0], "observed": best[1], "signature": f.get("signature")}


def replay(ctx, rp):
    case = rp.get("input") or (rp.get("diverging_case") or {}).get("case")
    if case.get("part") == "regridpair":
        from . import regridpair
        o = regridpair.oracle(case, regridpair.run(case))
        return {"fails": bool(o), "oracle": o}
    impl, div, fail, tags = evaluate(case)
    small = {k: (v.tolist() if hasattr(v, "tolist") else v) for k, v in impl.items()}
    return {"fails": bool(fail), "oracle": fail, "impl": small, "correspondence": div, "tags": tags}
