"""C15 — canonical form and conversion between compatible grids preserve located values.

Correspondence: for pairs of layouts (order, axes_reversed, per-axis direction) of one geometry
(1-3 axes, cells / points, uniform / rectilinear / ESRI) an `arange`-filled array (plain or masked,
without time axis, with a time axis of length 2, or pushed through a real `Output >> Input` link
where `prepare` adds the time axis) is converted by the real grids (`to_canonical`,
`from_canonical`, `compatible_with`, `==`, `get_transform_to`, `Input.pull_data`) and by the Lean
model (`FinamModel/Canonical.lean`); pairs of different geometries are compared on
`compatible_with` / `==`.

Oracle (independent of the model): every value is identified with its physical coordinate through
the grid's own `data_points` (flattened in the grid's order).  Required: from_canonical∘to_canonical
= id and to_canonical∘from_canonical = id; the canonical array is indexed in xyz order along
increasing coordinates; `compatible_with` ⇔ same location kind and the same set of data locations;
data delivered through the link (with its time axis, masked or not) has the consumer's data shape
and carries every value (and mask flag) at the coordinate it had in the source; equal layouts
deliver the array unchanged.
"""
import itertools

import numpy as np

from .. import common
from .. import gridutil as gu
from ..fmutil import T, close, err_class, fm

MODULES = ["Index", "IndexLemmas", "Grid", "GridLemmas", "Canonical", "CanonicalLemmas"]
GEN_OBLIGATIONS = ["location_enum"]
THEOREM_DEPS = []

GEOMS = {1: [(3,), (1,), (4,)], 2: [(2, 3), (3, 1), (3, 3), (1, 1)], 3: [(2, 3, 4), (2, 1, 3), (2, 2, 2)]}


# ------------------------------------------------------------------------------------------------
def geom_spec(kind, dims, layout, loc, variant=0):
    order, rev, inc = layout
    if kind == "esri":
        # an ESRI raster and the uniform grid of the same geometry
        return {"kind": "esri", "ncols": dims[0] - 1, "nrows": dims[1] - 1, "cellsize": 2, "xll": 3, "yll": -1,
                "order": order}
    if kind == "esri-uniform":
        return {"kind": "uniform", "dims": list(dims), "spacing": [2, 2], "origin": [3, -1], "order": order,
                "rev": rev, "inc": list(inc), "loc": loc}
    return gu.make_spec(kind, dims, order, rev, inc, loc, variant)


def all_pairs():
    """(src spec, dst spec) over all pairs of layouts of one geometry"""
    for d in (1, 2, 3):
        lay = list(gu.layouts(d))
        for dims in GEOMS[d]:
            for kind in ("uniform", "rect"):
                for loc in ("cells", "points"):
                    for ls in lay:
                        for ld in lay:
                            yield (geom_spec(kind, dims, ls, loc, 1), geom_spec(kind, dims, ld, loc, 1))
    # symmetric geometries: equal dims, spacing and origin on every axis (axes cannot be told apart by their coordinates)
    for dims in [(3, 3), (4, 4), (3, 3, 3)]:
        lay = list(gu.layouts(len(dims)))
        for loc in ("cells", "points"):
            for ls in lay:
                for ld in lay:
                    yield (geom_spec("uniform", dims, ls, loc, 2), geom_spec("uniform", dims, ld, loc, 2))
    lay = list(gu.layouts(2))
    for dims in [(3, 4), (2, 2), (4, 2)]:
        for order in "CF":
            for ld in lay:
                e = geom_spec("esri", dims, (order, True, [True, False]), "cells")
                u = geom_spec("esri-uniform", dims, ld, "cells")
                yield (e, u)
                yield (u, e)


VARIANTS = [("direct", 0, 0), ("direct", 2, 0), ("direct", 0, 1), ("direct", 2, 1),
            ("link", 1, 0), ("link", 1, 1), ("link", 1, 2), ("link", 1, 3),
            # a static output read by a static input several times (the converted data is cached by the input)
            ("static", 1, 0), ("static", 1, 1),
            # the producer publishes flat data (one entry per data point, in the memory order of its grid)
            ("flat", 1, 0), ("flat", 1, 1), ("flat", 1, 2),
            # a pass-through adapter between the two ends (the conversion is the input's business, once)
            ("adapter", 1, 0), ("adapter", 1, 1), ("adapter", 1, 2)]


def perturb(rng, spec):
    """another geometry close to `spec`"""
    s = {k: (list(v) if isinstance(v, list) else v) for k, v in spec.items()}
    d = len(s["dims"])
    a = rng.randrange(d)
    how = rng.choice(["same", "origin", "spacing", "dims", "swap", "loc", "drop", "same", "rect_bounds", "rect_bounds", "crs"])
    if how == "rect_bounds":
        # a rectilinear grid with the same node count and the same first and last node on every axis as the uniform one, one
        # interior node moved (when an axis has an interior node and room to move it): other data locations
        axes = gu.spec_axes(s)
        ks = [k for k in range(d) if s["dims"][k] >= 3 and s["spacing"][k] >= 2]
        if ks:
            k = rng.choice(ks)
            axes[k][rng.randrange(1, s["dims"][k] - 1)] += 1
        else:
            how = "rect_same"
        order, rev, inc = rng.choice(list(gu.layouts(d)))
        return {"kind": "rect", "axes": axes, "order": order, "rev": rev, "inc": inc, "loc": s["loc"], "crs": s.get("crs")}, how
    if how == "origin":
        s["origin"][a] += rng.choice([1, -1, 2])
    elif how == "spacing":
        s["spacing"][a] += 1
    elif how == "dims":
        s["dims"][a] = max(1, s["dims"][a] + rng.choice([1, -1]))
    elif how == "swap" and d >= 2:
        b = (a + 1) % d
        for key in ("dims", "spacing", "origin"):
            s[key][a], s[key][b] = s[key][b], s[key][a]
    elif how == "crs":
        # the same numbers in another reference system (EPSG codes): other locations
        s["crs"] = {None: 25833, 32632: rng.choice([25833, None]), 25833: 32632}[s.get("crs")]
    elif how == "loc":
        s["loc"] = "points" if s["loc"] == "cells" else "cells"
    elif how == "drop" and d >= 2:
        for key in ("dims", "spacing", "origin", "inc"):
            s[key] = s[key][:-1]
    order, rev, inc = rng.choice(list(gu.layouts(len(s["dims"]))))
    s["order"], s["rev"], s["inc"] = order, rev, inc
    return s, how


def gen_compat_case(rng):
    d = rng.randint(1, 3)
    dims = [rng.randint(1, 4) for _ in range(d)]
    order, rev, inc = rng.choice(list(gu.layouts(d)))
    a = gu.make_spec("uniform", dims, order, rev, inc, rng.choice(["cells", "points"]), rng.randint(0, 1))
    if rng.random() < 0.3:
        a["crs"] = 32632
    b, how = perturb(rng, a)
    case = {"type": "compat", "a": a, "b": b, "how": how}
    if rng.random() < 0.4:
        case["relocate"] = rng.choice(["a", "b"])
    return case


# ------------------------------------------------------------------------------------------------
def src_array(case, g):
    """arange-filled source data (and mask) in the source grid's layout"""
    shp = tuple(int(n) for n in g.data_shape)
    t = case["time"]
    full = ((t,) if t else ()) + shp
    x = np.arange(int(np.prod(full)), dtype=float).reshape(full)
    size = int(np.prod(shp))
    # deterministic partial mask, never symmetric under the layout changes
    flat = np.array([(k * 7 + 3) % 5 < 2 for k in range(size)], dtype=bool)
    if size > 1:
        flat[0], flat[-1] = True, False
    m = flat.reshape(shp)
    mfull = np.broadcast_to(m, full).copy() if t else m
    if t == 2:
        mfull[1] = ~mfull[1]
    return x, mfull


def located(g, arr):
    """{coordinate: value} of an array in g.data_shape"""
    pts = np.asarray(g.data_points, dtype=float)
    flat = np.reshape(arr, -1, order=g.order)
    return {tuple(np.round(p, 6)): v for p, v in zip(pts.tolist(), flat.tolist())}


def mask_for(gsrc, gdst, m):
    """the mask `m` (source layout) expressed in the layout of gdst: same flag at the same coordinate"""
    loc = located(gsrc, m)
    pts = np.asarray(gdst.data_points, dtype=float)
    flat = np.array([loc[tuple(np.round(p, 6))] for p in pts.tolist()], dtype=bool)
    return flat.reshape(tuple(gdst.data_shape), order=gdst.order)


def safe(f, *a):
    """a comparison of two grids must answer, never raise; an exception is reported as an observable"""
    try:
        return bool(f(*a))
    except Exception as e:  # noqa
        return f"raised {type(e).__name__}: {e}"[:200]


def run_pair(case):
    gs, gd = gu.build_grid(case["src"]), gu.build_grid(case["dst"])
    x, m = src_array(case, gs)
    out = {"gs": gs, "gd": gd, "x": x, "m": m}
    out["compatible"] = safe(gs.compatible_with, gd)
    out["eq"] = safe(gs.__eq__, gd)
    masked = case["masked"]
    try:
        if case["via"] == "direct":
            tr = gs.get_transform_to(gd)
            out["transform"] = "pass" if tr is None else "convert"
            data = np.ma.masked_array(x.copy(), m.copy()) if masked else x.copy()
            res = data if tr is None else tr(data)
            if case["time"] == 0:
                try:
                    c = gs.to_canonical(data)
                    out["canon"] = c
                    out["back"] = gs.from_canonical(c)
                except Exception as e:  # noqa
                    out["canon_err"] = err_class(e)
        else:
            src_mask = m[0] if masked in (2, 3) else fm.Mask.FLEX
            dst_mask = mask_for(gs, gd, m[0]) if masked == 3 else fm.Mask.FLEX
            static = case["via"] == "static"
            o = fm.Output(name="out", static=static, info=fm.Info(time=None if static else T(0), grid=gs, units="m", mask=src_mask))
            i = fm.Input(name="in", static=static, info=fm.Info(time=None, grid=gd, units=None, mask=dst_mask))
            if case["via"] == "adapter":
                import finam.adapters as _ad
                o >> _ad.Scale(1.0) >> i
            else:
                o >> i
            i.ping()
            i.exchange_info()
            out["transform"] = "pass" if i._transform is None else "convert"
            payload = np.ma.masked_array(x[0].copy(), m[0].copy()) if masked == 1 else x[0].copy()
            if case["via"] == "flat":
                payload = payload.flatten(order=gs.order)
            o.push_data(payload, None if static else T(0))
            res = i.pull_data(T(0))
            if static:
                # further reads (at other times) serve the same converted data
                first = res.magnitude
                for k in (1, 2):
                    res = i.pull_data(T(k * 3_600_000_000))
                    if not (np.array_equal(np.ma.getdata(res.magnitude), np.ma.getdata(first))
                            and np.array_equal(np.ma.getmaskarray(res.magnitude), np.ma.getmaskarray(first))):
                        out["reread_differs"] = k + 1
                        break
            res = res.magnitude
        out["res"] = res
    except Exception as e:  # noqa
        out["err"] = err_class(e)
        out["msg"] = f"{type(e).__name__}: {e}"[:200]
    return out


def ints(a):
    return [int(round(v)) for v in np.ma.getdata(a).reshape(-1).tolist()]


def arr_obs(a):
    return {"shape": list(np.shape(a)), "data": ints(a)}


def compare_pair(case, impl, models):
    md = models[0]
    if impl["compatible"] != md["compatible"]:
        return {"observable": "compatible_with", "impl": impl["compatible"], "model": md["compatible"]}
    if impl["eq"] != md["eq"]:
        return {"observable": "__eq__", "impl": impl["eq"], "model": md["eq"]}
    key = "deliver" if case["via"] in ("link", "static", "flat", "adapter") else "trans"
    if "err" in impl:
        exp = md[key] if "err" in md[key] else md["transform"]
        got = {"err": impl["err"]}
        if not (isinstance(exp, dict) and exp.get("err") == impl["err"]):
            return {"observable": "result", "impl": got, "model": md[key]}
        return None
    if impl["transform"] != md["transform"]:
        return {"observable": "get_transform_to", "impl": impl["transform"], "model": md["transform"]}
    want = md[key] if md["transform"] == "convert" or key == "deliver" else {"ok": arr_obs(impl["x"])}
    got = {"ok": arr_obs(impl["res"])}
    if got != want:
        return {"observable": "delivered-data", "impl": got, "model": want}
    if case["masked"]:
        mm = models[1]
        want = mm[key] if mm["transform"] == "convert" or key == "deliver" else None
        if want is not None:
            gm = np.ma.getmaskarray(impl["res"]).astype(int)
            got = {"ok": {"shape": list(gm.shape), "data": gm.reshape(-1).tolist()}}
            if got != want:
                return {"observable": "delivered-mask", "impl": got, "model": want}
    if case["via"] == "direct" and case["time"] == 0:
        if "canon_err" in impl:
            if md["canon"].get("err") != impl["canon_err"]:
                return {"observable": "to_canonical", "impl": impl["canon_err"], "model": md["canon"]}
        else:
            if {"ok": arr_obs(impl["canon"])} != md["canon"]:
                return {"observable": "to_canonical", "impl": arr_obs(impl["canon"]), "model": md["canon"]}
            if {"ok": arr_obs(impl["back"])} != md["back"]:
                return {"observable": "from_canonical", "impl": arr_obs(impl["back"]), "model": md["back"]}
    return None


def same_values(la, lb):
    return la.keys() == lb.keys() and all(la[k] == lb[k] for k in la)


def oracle_pair(case, impl):
    gs, gd, x, m = impl["gs"], impl["gd"], impl["x"], impl["m"]
    if impl["compatible"] is not True:
        return ("two layouts of the same geometry with the same data location are compatible",
                {"compatible": impl["compatible"]})
    if "err" in impl:
        return ("data between compatible grids is converted and delivered", {"error": impl.get("msg")})
    res = impl["res"]
    t = case["time"]
    want_shape = ((t,) if t else ()) + tuple(int(n) for n in gd.data_shape)
    if tuple(np.shape(res)) != want_shape:
        return ("delivered data has the consumer grid's data shape (behind the time axis)",
                {"shape": list(np.shape(res)), "expected": list(want_shape)})
    masked = bool(case["masked"])
    rdata, rmask = np.ma.getdata(res), np.ma.getmaskarray(res)
    if masked and not np.ma.isMaskedArray(res):
        return ("masked data stays masked", {"type": type(res).__name__})
    for k in range(t or 1):
        sx, sm = (x[k], m[k]) if t else (x, m)
        dx, dm = (rdata[k], rmask[k]) if t else (rdata, rmask)
        ls, ld = located(gs, sx), located(gd, dx)
        if masked:
            lms, lmd = located(gs, sm), located(gd, dm)
            if not same_values(lms, lmd):
                bad = next(c for c in lms if lmd.get(c) != lms[c])
                return ("every mask flag is delivered at the coordinate it had in the source",
                        {"time_index": k, "coordinate": list(bad), "source": lms[bad], "delivered": lmd.get(bad)})
            ls = {c: v for c, v in ls.items() if not lms[c]}
            ld = {c: v for c, v in ld.items() if not lmd[c]}
        if not same_values(ls, ld):
            bad = next(c for c in ls if ld.get(c) != ls[c])
            return ("every value is delivered at the coordinate it had in the source",
                    {"time_index": k, "coordinate": list(bad), "source": ls[bad], "delivered": ld.get(bad)})
    inc_s, inc_d = list(gs.axes_increase), list(gd.axes_increase)
    if bool(gs.axes_reversed) == bool(gd.axes_reversed) and inc_s == inc_d:
        if not np.array_equal(np.ma.getdata(res), x if case["via"] == "direct" else x):
            return ("equal layouts are passed through unchanged", {"changed": True})
    if case["via"] == "direct" and t == 0:
        if "canon_err" in impl:
            return ("data in the grid's data shape can be converted to canonical form", {"error": impl["canon_err"]})
        c, b = impl["canon"], impl["back"]
        if np.shape(b) != np.shape(x) or not np.array_equal(np.ma.getdata(b), x):
            return ("from_canonical(to_canonical(x)) == x", {"back": arr_obs(b)})
        if masked and not np.array_equal(np.ma.getmaskarray(b), m):
            return ("from_canonical(to_canonical(x)) == x (mask)", {})
        c2 = gs.to_canonical(gs.from_canonical(c))
        if not np.array_equal(np.ma.getdata(c2), np.ma.getdata(c)):
            return ("to_canonical(from_canonical(c)) == c", {})
        # canonical: xyz order, increasing coordinates
        axes = gs.cell_axes if gs.data_location == fm.Location.CELLS else gs.axes
        if list(np.shape(c)) != [len(a) for a in axes]:
            return ("canonical data is indexed in x, y, z order", {"shape": list(np.shape(c))})
        for a in axes:
            if len(a) > 1 and not np.all(np.diff(a) > 0):
                return ("canonical axes increase", {"axis": np.asarray(a).tolist()})
        ls = located(gs, x)
        cd = np.ma.getdata(c)
        for idx in np.ndindex(*np.shape(c)):
            coord = tuple(np.round([float(axes[k][idx[k]]) for k in range(len(axes))], 6))
            if ls.get(coord) != cd[idx]:
                return ("canonical element [ix,iy,iz] is the value located at (x[ix], y[iy], z[iz]) of the "
                        "increasing axes", {"index": list(idx), "coordinate": list(coord),
                                            "canonical": float(cd[idx]), "located": ls.get(coord)})
    return None


def run_compat(case):
    ga, gb = gu.build_grid(case["a"]), gu.build_grid(case["b"])
    out = {"ga": ga, "gb": gb, "compatible": safe(ga.compatible_with, gb), "eq": safe(ga.__eq__, gb),
           "compatible_rev": safe(gb.compatible_with, ga)}
    if case.get("relocate"):
        # the same two objects asked again after one of them was switched between cell and point data (public setter):
        # the answer is about what the grids describe *now*
        first = {"same": ga.dim == gb.dim and ga.data_location == gb.data_location and locset(ga) == locset(gb) and same_crs(case),
                 "compatible": out["compatible"], "compatible_rev": out["compatible_rev"], "eq": out["eq"]}
        tgt = gb if case["relocate"] == "b" else ga
        tgt.data_location = fm.Location.POINTS if tgt.data_location == fm.Location.CELLS else fm.Location.CELLS
        out.update({"first": first, "compatible": safe(ga.compatible_with, gb), "eq": safe(ga.__eq__, gb),
                    "compatible_rev": safe(gb.compatible_with, ga)})
    return out


def same_crs(case):
    """coordinates are locations only together with their reference system (taken from the case description)"""
    return case["a"].get("crs") == case["b"].get("crs")


def locset(g):
    return frozenset(tuple(np.round(p, 6)) for p in np.asarray(g.data_points, dtype=float).tolist())


def oracle_compat(case, impl):
    ga, gb = impl["ga"], impl["gb"]
    f = impl.get("first")
    if f and (f["compatible"] != f["same"] or f["compatible_rev"] != f["same"]):
        return ("compatible_with <=> same location kind and same set of data locations",
                {"compatible": f["compatible"], "reverse": f["compatible_rev"], "same_locations": f["same"]})
    same = ga.dim == gb.dim and ga.data_location == gb.data_location and locset(ga) == locset(gb) and same_crs(case)
    if impl["compatible"] != same or impl["compatible_rev"] != same:
        return ("compatible_with <=> same location kind and same set of data locations",
                {"compatible": impl["compatible"], "reverse": impl["compatible_rev"], "same_locations": same})
    if impl["eq"] is not False and impl["compatible"] is not True:
        return ("equal grids are compatible", {"eq": impl["eq"], "compatible": impl["compatible"]})
    return None


# ------------------------------------------------------------------------------------------------
def model_requests(case):
    if case["type"] == "compat":
        a, b = gu.model_grid(case["a"]), gu.model_grid(case["b"])
        return [{"op": "c15", "src": a, "dst": b, "shape": [0], "data": []}]
    gs = gu.model_grid(case["src"])
    gd = gu.model_grid(case["dst"])
    g = gu.build_grid(case["src"])
    x, m = src_array(case, g)
    reqs = [{"op": "c15", "src": gs, "dst": gd, **gu.arr_json(x.astype(int))}]
    if case["masked"]:
        reqs.append({"op": "c15", "src": gs, "dst": gd, **gu.arr_json(m.astype(int))})
    return reqs


def nontrivial(case):
    if case["type"] == "compat":
        return True
    fs, fd = gu.spec_flags(case["src"]), gu.spec_flags(case["dst"])
    return (fs[0], fs[1]) != (fd[0], fd[1]) and max(gu.spec_dims(case["src"])) > 1


def evaluate(case, models, res):
    if case["type"] == "compat":
        impl = run_compat(case)
        md = models[0]
        first = impl.get("first") or impl     # (the model answers for the grids as specified; a relocation follows)
        if first["compatible"] != md["compatible"] or first["eq"] != md["eq"]:
            res.diverge("canonical/compatible_with", case, {"compatible": first["compatible"], "eq": first["eq"]},
                        {"compatible": md["compatible"], "eq": md["eq"]})
        o = oracle_compat(case, impl)
    else:
        impl = run_pair(case)
        d = compare_pair(case, impl, models)
        if d:
            res.diverge(f"canonical/{case['via']}/{d['observable']}", case, gu.short(d["impl"]), gu.short(d["model"]))
        o = oracle_pair(case, impl)
    if o:
        res.fail(case, o[0], o[1])


def count(case, res):
    res.count("case_types", case["type"])
    if case["type"] == "pair":
        res.count("via", f"{case['via']}/T{case['time']}/mask{case['masked']}")
        res.count("dim", len(gu.spec_dims(case["src"])))
        res.count("kinds", f"{case['src']['kind']}->{case['dst']['kind']}")
        fs, fd = gu.spec_flags(case["src"]), gu.spec_flags(case["dst"])
        res.count("reversed", f"{int(fs[1])}->{int(fd[1])}")
        res.count("location", fs[3])
    else:
        res.count("perturbation", case["how"])


def make_case(pair, variant, derived=0):
    """derived: 1 / 2 / 3 = source / target / both are the rectilinear grids obtained by `to_rectilinear()` from the
    uniform or ESRI grid of the spec"""
    via, t, masked = variant
    src, dst = pair
    if derived & 1 and src["kind"] in ("uniform", "esri"):
        src = dict(src, to_rect=True)
    if derived & 2 and dst["kind"] in ("uniform", "esri"):
        dst = dict(dst, to_rect=True)
    return {"type": "pair", "src": src, "dst": dst, "via": via, "time": t, "masked": masked}


def corpus():
    u = lambda lay, loc="cells", dims=(3, 4): gu.make_spec("uniform", dims, lay[0], lay[1], lay[2], loc, 1)  # noqa
    return [
        # F8: every pair except reversed->reversed failed with a time axis
        make_case((u(("F", False, [True, True])), u(("F", True, [True, True]))), ("link", 1, 0)),
        make_case((u(("F", False, [True, True])), u(("F", False, [False, True]))), ("link", 1, 0)),
        make_case((u(("C", True, [True, False])), u(("F", False, [True, True]))), ("link", 1, 1)),
        make_case((u(("F", True, [True, True, True]), "points", (2, 3, 4)), u(("C", True, [False, True, False]), "points", (2, 3, 4))),
                  ("direct", 2, 1)),
        make_case((geom_spec("esri", (3, 4), ("C", True, [True, False]), "cells"),
                   geom_spec("esri-uniform", (3, 4), ("F", False, [True, True]), "cells")), ("link", 1, 3)),
    ]


def check_cases(cases, res):
    reqs, spans = [], []
    for c in cases:
        r = model_requests(c)
        spans.append((len(reqs), len(reqs) + len(r)))
        reqs.extend(r)
    models = common.lean_batch(reqs)
    for c, (a, b) in zip(cases, spans):
        res.case(c, nontrivial(c))
        count(c, res)
        evaluate(c, models[a:b], res)


def run(ctx, res):
    res.rule = ("all ordered pairs of layouts (order x axes_reversed x direction^d) of one geometry for geometries "
                f"{GEOMS} x {{uniform, rectilinear}} x {{cells, points}}, ESRI rasters against every layout of the "
                "same uniform geometry (both directions), either side optionally replaced by the grid derived from it with "
                "to_rectilinear(); each pair in 8 variants: direct transform without time axis / "
                "with a time axis of length 2, plain / masked array; through a real Output>>Input link (time axis "
                "added by prepare) plain / masked payload / explicit producer mask / explicit masks at both ends "
                "(thorough: every pair x variant; quick: corpus + seeded sample); random pairs of perturbed geometries "
                "for compatible_with; non-trivial = layouts differ on a non-degenerate geometry")
    res.assumptions = [
        "coordinates are small integers, exactly representable; np.allclose tolerance and rounding are not modelled",
        "compatible_with is required to agree with 'same location kind and same set of data locations' "
        "(cell data and point data never count as the same locations)",
        "reference systems are EPSG codes compared for equality (pyproj's equality of two different codes is taken as given); "
        "in the conversion cases crs is None on both sides",
    ]
    pairs = list(all_pairs())
    if ctx.tier == "thorough":
        cases = [make_case(p, v) for p in pairs for v in VARIANTS]
        # grids derived by to_rectilinear(): every uniform / ESRI pair once more, cycling through the variants and
        # through which side is derived
        k = 0
        for p in pairs:
            if p[0]["kind"] != "rect" or p[1]["kind"] != "rect":
                cases.append(make_case(p, VARIANTS[k % len(VARIANTS)], 1 + (k // len(VARIANTS)) % 3))
                k += 1
        res.exhaustive = True
    else:
        # stratified by dimension / ESRI so that the (many) 3-D pairs do not crowd out the rest
        groups = {}
        for p in pairs:
            key = "esri" if "esri" in (p[0]["kind"], p[1]["kind"]) else len(gu.spec_dims(p[0]))
            groups.setdefault(key, []).append(p)
        cases = []
        for key in sorted(groups, key=str):
            cases += [make_case(ctx.rng.choice(groups[key]), ctx.rng.choice(VARIANTS),
                                ctx.rng.choice([0, 0, 0, 1, 2, 3])) for _ in range(1200)]
    compat = [gen_compat_case(ctx.rng) for _ in range(ctx.n(1500, 6000))]
    check_cases(corpus() + cases + compat, res)


def search(ctx, res, divergences, broken):
    cases = [d["case"] for d in divergences if d.get("case")] + corpus()
    pairs = list(all_pairs())
    cases += [make_case(ctx.rng.choice(pairs), ctx.rng.choice(VARIANTS)) for _ in range(ctx.n(6000, 40000))]
    cases += [gen_compat_case(ctx.rng) for _ in range(ctx.n(2000, 10000))]
    for c in cases:
        res.case(c, nontrivial(c))
        try:
            o = oracle_compat(c, run_compat(c)) if c["type"] == "compat" else oracle_pair(c, run_pair(c))
        except Exception as e:  # noqa
            o = ("grids can be built and compared", {"exception": f"{type(e).__name__}: {e}"[:300]})
        if o:
            res.fail(c, o[0], o[1])
            return


def replay(ctx, rp):
    case = rp.get("input") or (rp.get("diverging_case") or {}).get("case")
    res = common.Result()
    models = common.lean_batch(model_requests(case))
    evaluate(case, models, res)
    return {"fails": bool(res.failures), "oracle": res.failures[:1], "divergences": res.divergences[:1]}
