"""C13 with calendar delays: `DelayFixed` accepts a `relativedelta` (months / years).  The time that reaches the source
for a request `t` is `max(t - delay, start)` with the calendar subtraction of `relativedelta` (clamped to the end of shorter
months), for one adapter and for two chained ones (delays add up: the second subtraction applies to the result of the
first).  Oracle only: calendar arithmetic is outside the Lean model (which counts microseconds)."""
import datetime as dt

import numpy as np
from dateutil.relativedelta import relativedelta

from ..fmutil import ad, err_class, fm

DELAYS = [["months", 1], ["months", 2], ["months", 3], ["years", 1], ["days", 10], ["days", 45]]
STARTS = [[2000, 1, 1], [2000, 1, 31], [1999, 11, 30], [2000, 2, 29], [2001, 3, 15]]


def gen(rng):
    n = rng.choice([1, 1, 2])
    start = rng.choice(STARTS)
    reqs, d = [], 0
    for _ in range(rng.randint(3, 9)):
        d += rng.choice([0, 1, 7, 28, 29, 30, 31, 45, 61])
        reqs.append(d)
    return {"part": "caldelay", "delays": [rng.choice(DELAYS) for _ in range(n)], "start": start, "requests_days": reqs}


def _delta(d):
    return relativedelta(**{d[0]: d[1]}) if d[0] in ("months", "years") else dt.timedelta(**{d[0]: d[1]})


def run(case):
    start = dt.datetime(*case["start"])
    out = fm.Output(name="out", info=fm.Info(time=start, grid=fm.NoGrid(), units=""))
    inp = fm.Input(name="in", info=fm.Info(time=None, grid=None, units=None))
    cur = out
    for d in case["delays"]:
        cur = cur >> ad.DelayFixed(_delta(d))
    cur >> inp
    inp.ping()
    inp.exchange_info()
    reached = []
    orig = out.get_data

    def logged(time, target):
        reached.append(time)
        return orig(time, target)

    out.get_data = logged
    last = start + dt.timedelta(days=max(case["requests_days"]) + 2)
    t, k = start, 0
    while t <= last:
        out.push_data(np.array(float(k)), t)
        t += dt.timedelta(days=1)
        k += 1
    res = []
    for days in case["requests_days"]:
        del reached[:]
        req = start + dt.timedelta(days=days)
        try:
            v = inp.pull_data(req)
            res.append({"request": req.isoformat(), "reached": reached[-1].isoformat() if reached else None,
                        "value": float(fm.data.get_magnitude(v).reshape(-1)[0])})
        except Exception as e:  # noqa
            res.append({"request": req.isoformat(), "err": err_class(e), "msg": str(e)[:120]})
    return res


def oracle(case, impl):
    start = dt.datetime(*case["start"])
    for days, r in zip(case["requests_days"], impl):
        t = start + dt.timedelta(days=days)
        # requests pass the adapters from the consumer side
        for d in reversed(case["delays"]):
            t = max(t - _delta(d), start)
        if "err" in r:
            return ("a request at or after the start time through fixed delays is served", {"request": r["request"], "error": r.get("msg")})
        if r["reached"] != t.isoformat():
            return ("a fixed delay forwards max(t - delay, start), calendar delays included; chained delays add up",
                    {"request": r["request"], "reached_the_source_for": r["reached"], "expected": t.isoformat(), "delays": case["delays"]})
        if r["value"] != float((t - start).days):
            return ("the data served is the source's data for the shifted time", {"request": r["request"], "value": r["value"], "expected_day": (t - start).days})
    return None
